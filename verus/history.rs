// C02 / C11, induction over the call history (spec level).  Kani proves, for every operation and from
// an ARBITRARY concrete state satisfying the representation invariant Inv(P): new() gives Inv(0);
// apply(data[..n]) returns Ok iff P + n <= LIMIT, then data'[i] = data[i] ^ KS(P + i) and Inv(P + n),
// otherwise data and P are unchanged; seek(p) gives Inv(p) iff p <= LIMIT (else unchanged);
// current_pos() returns P.  Here: the abstract machine those contracts describe, and the corollaries
// the property states -- output depends only on the absolute position (re-chunking invariance),
// applying twice at one position restores the data, failed calls are no-ops.
use vstd::prelude::*;
verus! {

pub enum Op { Seek(int), Apply(Seq<u8>) }

/// abstract state: the absolute position
pub open spec fn step_pos(p: int, op: Op, limit: int) -> int {
    match op {
        Op::Seek(q) => if 0 <= q <= limit { q } else { p },
        Op::Apply(d) => if p + d.len() <= limit { p + d.len() } else { p },
    }
}
/// what apply returns (the data after the call) according to the per-call contract
pub open spec fn apply_out(ks: spec_fn(int) -> u8, p: int, d: Seq<u8>, limit: int) -> Seq<u8> {
    if p + d.len() <= limit { Seq::new(d.len(), |i: int| d[i] ^ ks(p + i)) } else { d }
}
pub open spec fn run_pos(p0: int, ops: Seq<Op>, limit: int) -> int
    decreases ops.len()
{
    if ops.len() == 0 { p0 } else { step_pos(run_pos(p0, ops.drop_last(), limit), ops.last(), limit) }
}

/// the position always stays within [0, LIMIT]: exhaustion can never wrap
pub proof fn lemma_position_in_range(p0: int, ops: Seq<Op>, limit: int)
    requires 0 <= p0 <= limit,
    ensures 0 <= run_pos(p0, ops, limit) <= limit,
    decreases ops.len()
{
    if ops.len() > 0 { lemma_position_in_range(p0, ops.drop_last(), limit); }
}

/// re-chunking invariance: apply(a) then apply(b) == apply(a ++ b), bytes and final position
pub proof fn lemma_rechunk(ks: spec_fn(int) -> u8, p: int, a: Seq<u8>, b: Seq<u8>, limit: int)
    requires 0 <= p, p + a.len() + b.len() <= limit,
    ensures
        apply_out(ks, p, a, limit) + apply_out(ks, p + a.len(), b, limit) =~= apply_out(ks, p, a + b, limit),
        step_pos(step_pos(p, Op::Apply(a), limit), Op::Apply(b), limit) == step_pos(p, Op::Apply(a + b), limit),
{
    let l = apply_out(ks, p, a, limit) + apply_out(ks, p + a.len(), b, limit);
    let r = apply_out(ks, p, a + b, limit);
    assert(l.len() == r.len());
    assert forall|i: int| 0 <= i < l.len() implies l[i] == r[i] by {
        if i < a.len() { assert((a + b)[i] == a[i]); } else { assert((a + b)[i] == b[i - a.len()]); }
    }
}

/// applying the keystream twice at one position restores the data
pub proof fn lemma_twice_restores(ks: spec_fn(int) -> u8, p: int, d: Seq<u8>, limit: int)
    requires 0 <= p, p + d.len() <= limit,
    ensures apply_out(ks, p, apply_out(ks, p, d, limit), limit) =~= d,
{
    let e = apply_out(ks, p, d, limit);
    assert(e.len() == d.len());
    assert forall|i: int| 0 <= i < d.len() implies apply_out(ks, p, e, limit)[i] == d[i] by {
        let x = d[i];
        let k = ks(p + i);
        assert((x ^ k) ^ k == x) by (bit_vector);
    }
}

/// a failed request is a no-op on the data and on the position
pub proof fn lemma_failed_is_noop(ks: spec_fn(int) -> u8, p: int, d: Seq<u8>, limit: int)
    requires p + d.len() > limit,
    ensures apply_out(ks, p, d, limit) == d, step_pos(p, Op::Apply(d), limit) == p,
{
}

/// seeking back and re-applying produces the same bytes whatever happened in between
pub proof fn lemma_depends_only_on_position(ks: spec_fn(int) -> u8, p0: int, between: Seq<Op>, q: int, d: Seq<u8>, limit: int)
    requires 0 <= p0 <= limit, 0 <= q, q + d.len() <= limit,
    ensures ({
        let p1 = step_pos(run_pos(p0, between, limit), Op::Seek(q), limit);
        p1 == q && apply_out(ks, p1, d, limit) == apply_out(ks, q, d, limit)
    }),
{
    lemma_position_in_range(p0, between, limit);
}

} // verus!
fn main() {}
