// Induction step of C10 (and the generic shape of every "rounds then inverse rounds" argument):
// if, for every round index d < n, g(d, .) is a left inverse of f(d, .) on well-formed states and f
// preserves well-formedness, then undoing the rounds n-1 .. 0 after doing the rounds 0 .. n-1 is the
// identity.  Applied twice (f = round, g = inv_round and f = inv_round', g = round' with reversed
// indices) it gives decrypt(encrypt(p)) == p and encrypt(decrypt(c)) == c from the per-round lemmas
// discharged by Kani (kani/threefish: c10_round_inverse_lemma) and the final-subkey add/sub identity.
use vstd::prelude::*;
verus! {

pub open spec fn do_rounds(f: spec_fn(int, Seq<u64>) -> Seq<u64>, n: nat, v: Seq<u64>) -> Seq<u64>
    decreases n
{
    if n == 0 { v } else { f(n - 1, do_rounds(f, (n - 1) as nat, v)) }
}

pub open spec fn undo_rounds(g: spec_fn(int, Seq<u64>) -> Seq<u64>, n: nat, w: Seq<u64>) -> Seq<u64>
    decreases n
{
    if n == 0 { w } else { undo_rounds(g, (n - 1) as nat, g(n - 1, w)) }
}

pub proof fn lemma_rounds_wf(f: spec_fn(int, Seq<u64>) -> Seq<u64>, wf: spec_fn(Seq<u64>) -> bool, n: nat, v: Seq<u64>)
    requires
        wf(v),
        forall|d: int, x: Seq<u64>| 0 <= d < n && wf(x) ==> #[trigger] wf(f(d, x)),
    ensures
        wf(do_rounds(f, n, v)),
    decreases n
{
    if n > 0 {
        lemma_rounds_wf(f, wf, (n - 1) as nat, v);
    }
}

pub proof fn theorem_undo_after_do(
    f: spec_fn(int, Seq<u64>) -> Seq<u64>,
    g: spec_fn(int, Seq<u64>) -> Seq<u64>,
    wf: spec_fn(Seq<u64>) -> bool,
    n: nat,
    v: Seq<u64>,
)
    requires
        wf(v),
        forall|d: int, x: Seq<u64>| 0 <= d < n && wf(x) ==> #[trigger] wf(f(d, x)),
        forall|d: int, x: Seq<u64>| 0 <= d < n && wf(x) ==> #[trigger] g(d, f(d, x)) == x,
    ensures
        undo_rounds(g, n, do_rounds(f, n, v)) == v,
    decreases n
{
    if n > 0 {
        let m = (n - 1) as nat;
        let u = do_rounds(f, m, v);
        lemma_rounds_wf(f, wf, m, v);
        assert(g(n - 1, f(n - 1, u)) == u);
        theorem_undo_after_do(f, g, wf, m, v);
    }
}

// The same statement for rounds applied in descending order (decrypt first, then encrypt).
pub open spec fn do_rounds_desc(g: spec_fn(int, Seq<u64>) -> Seq<u64>, n: nat, w: Seq<u64>) -> Seq<u64> {
    undo_rounds(g, n, w)
}
pub open spec fn redo_rounds_asc(f: spec_fn(int, Seq<u64>) -> Seq<u64>, n: nat, lo: nat, v: Seq<u64>) -> Seq<u64>
    decreases n - lo
{
    if lo >= n { v } else { redo_rounds_asc(f, n, lo + 1, f(lo as int, v)) }
}

pub proof fn theorem_do_after_undo(
    f: spec_fn(int, Seq<u64>) -> Seq<u64>,
    g: spec_fn(int, Seq<u64>) -> Seq<u64>,
    wf: spec_fn(Seq<u64>) -> bool,
    n: nat,
    w: Seq<u64>,
)
    requires
        wf(w),
        forall|d: int, x: Seq<u64>| 0 <= d < n && wf(x) ==> #[trigger] wf(g(d, x)),
        forall|d: int, x: Seq<u64>| 0 <= d < n && wf(x) ==> #[trigger] f(d, g(d, x)) == x,
    ensures
        do_rounds(f, n, undo_rounds(g, n, w)) == w,
    decreases n
{
    if n > 0 {
        let m = (n - 1) as nat;
        let x = g(n - 1, w);
        // undo_rounds(g, n, w) == undo_rounds(g, m, x); do_rounds(f, n, y) == f(n-1, do_rounds(f, m, y))
        theorem_do_after_undo(f, g, wf, m, x);
        assert(do_rounds(f, m, undo_rounds(g, m, x)) == x);
        assert(f(n - 1, x) == w);
    }
}

// ---- conjugation (C06): two round sequences related by round-dependent layout maps.
// If for every round r < n the layout-decoded result of the bit-slice round equals the
// specification round of the decoded state (obligation J2 per layout class, J3 for the constants),
// then decoding after n bit-slice rounds equals n specification rounds of the decoded input.
pub open spec fn run(f: spec_fn(int, Seq<u8>) -> Seq<u8>, n: nat, x: Seq<u8>) -> Seq<u8>
    decreases n
{
    if n == 0 { x } else { f(n - 1, run(f, (n - 1) as nat, x)) }
}
pub proof fn theorem_conjugation(
    f_b: spec_fn(int, Seq<u8>) -> Seq<u8>,
    f_s: spec_fn(int, Seq<u8>) -> Seq<u8>,
    dec: spec_fn(int, Seq<u8>) -> Seq<u8>,
    n: nat,
    x: Seq<u8>,
)
    requires
        forall|r: int, y: Seq<u8>| 0 <= r < n ==> #[trigger] dec(r + 1, f_b(r, y)) == f_s(r, dec(r, y)),
    ensures
        dec(n as int, run(f_b, n, x)) == run(f_s, n, dec(0, x)),
    decreases n
{
    if n > 0 {
        let m = (n - 1) as nat;
        theorem_conjugation(f_b, f_s, dec, m, x);
        let y = run(f_b, m, x);
        assert(dec((n - 1) + 1, f_b(n - 1, y)) == f_s(n - 1, dec(n - 1, y)));
    }
}

} // verus!
fn main() {}
