// C08, induction step over the call history (spec level): the update contract proved by Kani for
// every hash type says, for one call from an arbitrary state, "the complete blocks of pending ++ data
// are compressed in order and the remainder stays pending".  Here: that contract makes the abstract
// stream view grow by exactly the bytes given, the representation (number of compressed bytes,
// pending bytes) is a FUNCTION of the stream view, and therefore any two partitions of the same
// message reach the same state (eager buffering: BLAKE, Groestl, JH; lazy buffering: Skein, where a
// non-empty stream always keeps 1..=B bytes pending).
use vstd::prelude::*;
use vstd::arithmetic::div_mod::*;
verus! {

/// abstract state: bytes already compressed (always whole blocks, in stream order) and pending bytes
pub struct Abs { pub done: Seq<u8>, pub pending: Seq<u8> }

pub open spec fn stream(a: Abs) -> Seq<u8> { a.done + a.pending }

/// eager representation invariant: whole blocks done, fewer than B pending
pub open spec fn inv_eager(a: Abs, b: int) -> bool { b > 0 && (a.done.len() as int) % b == 0 && a.pending.len() < b }
/// lazy representation invariant: whole blocks done, 1..=B pending unless the stream is empty
pub open spec fn inv_lazy(a: Abs, b: int) -> bool {
    b > 0 && (a.done.len() as int) % b == 0 && a.pending.len() <= b && (a.pending.len() == 0 ==> a.done.len() == 0)
}

/// the per-call contract (eager): q = pending ++ data; the first (|q| / B) * B bytes are compressed
pub open spec fn update_eager(a: Abs, data: Seq<u8>, b: int) -> Abs {
    let q = a.pending + data;
    let k = ((q.len() as int) / b) * b;
    Abs { done: a.done + q.subrange(0, k), pending: q.subrange(k, q.len() as int) }
}
/// the per-call contract (lazy): all but the last block of q are compressed; the last 1..=B bytes stay
pub open spec fn update_lazy(a: Abs, data: Seq<u8>, b: int) -> Abs {
    let q = a.pending + data;
    let k = if q.len() == 0 { 0 } else { ((q.len() as int - 1) / b) * b };
    Abs { done: a.done + q.subrange(0, k), pending: q.subrange(k, q.len() as int) }
}

pub proof fn lemma_sum_of_multiples(x: int, y: int, b: int)
    requires b > 0, x % b == 0, y % b == 0,
    ensures (x + y) % b == 0,
{
    lemma_add_mod_noop(x, y, b);
    lemma_small_mod(0, b as nat);
}
pub proof fn lemma_floor_multiple(n: int, b: int) -> (k: int)
    requires b > 0, n >= 0,
    ensures k == (n / b) * b, 0 <= k <= n, n - k < b, k % b == 0,
{
    let k = (n / b) * b;
    lemma_fundamental_div_mod(n, b);
    lemma_mod_multiples_basic(n / b, b);
    lemma_div_pos_is_pos(n, b);
    assert(b * (n / b) == (n / b) * b) by (nonlinear_arith);
    lemma_mod_pos_bound(n, b);
    assert(0 <= (n / b) * b) by (nonlinear_arith) requires n / b >= 0, b > 0;
    k
}
/// a multiple d of b with 0 <= n - d < b is the floor multiple of n
pub proof fn lemma_unique_multiple(n: int, d: int, b: int)
    requires b > 0, d % b == 0, 0 <= n - d < b,
    ensures d == (n / b) * b,
{
    lemma_fundamental_div_mod(d, b);
    assert(d == (d / b) * b) by (nonlinear_arith) requires d == b * (d / b) + d % b, d % b == 0;
    lemma_fundamental_div_mod_converse(n, b, d / b, n - d);
}

pub proof fn lemma_update_eager(a: Abs, data: Seq<u8>, b: int)
    requires inv_eager(a, b),
    ensures
        inv_eager(update_eager(a, data, b), b),
        stream(update_eager(a, data, b)) =~= stream(a) + data,
{
    let q = a.pending + data;
    let k = ((q.len() as int) / b) * b;
    let k2 = lemma_floor_multiple(q.len() as int, b);
    lemma_sum_of_multiples(a.done.len() as int, k, b);
    assert(q.subrange(0, k) + q.subrange(k, q.len() as int) =~= q);
    assert(stream(update_eager(a, data, b)) =~= a.done + (q.subrange(0, k) + q.subrange(k, q.len() as int)));
}

pub proof fn lemma_update_lazy(a: Abs, data: Seq<u8>, b: int)
    requires inv_lazy(a, b),
    ensures
        inv_lazy(update_lazy(a, data, b), b),
        stream(update_lazy(a, data, b)) =~= stream(a) + data,
{
    let q = a.pending + data;
    if q.len() == 0 {
        assert(q.subrange(0, 0) + q.subrange(0, 0) =~= q);
    } else {
        let k = ((q.len() as int - 1) / b) * b;
        let k2 = lemma_floor_multiple(q.len() as int - 1, b);
        lemma_sum_of_multiples(a.done.len() as int, k, b);
        assert(q.subrange(0, k) + q.subrange(k, q.len() as int) =~= q);
        assert(stream(update_lazy(a, data, b)) =~= a.done + (q.subrange(0, k) + q.subrange(k, q.len() as int)));
    }
}

/// the representation is a function of the stream view (eager)
pub proof fn lemma_canonical_eager(x: Abs, y: Abs, b: int)
    requires inv_eager(x, b), inv_eager(y, b), stream(x) =~= stream(y),
    ensures x.done =~= y.done, x.pending =~= y.pending,
{
    let n = stream(x).len() as int;
    assert(x.done.len() + x.pending.len() == n && y.done.len() + y.pending.len() == n);
    lemma_unique_multiple(n, x.done.len() as int, b);
    lemma_unique_multiple(n, y.done.len() as int, b);
    assert(x.done =~= stream(x).subrange(0, x.done.len() as int));
    assert(y.done =~= stream(y).subrange(0, y.done.len() as int));
    assert(x.pending =~= stream(x).subrange(x.done.len() as int, n));
    assert(y.pending =~= stream(y).subrange(y.done.len() as int, n));
}
/// the representation is a function of the stream view (lazy)
pub proof fn lemma_canonical_lazy(x: Abs, y: Abs, b: int)
    requires inv_lazy(x, b), inv_lazy(y, b), stream(x) =~= stream(y),
    ensures x.done =~= y.done, x.pending =~= y.pending,
{
    let n = stream(x).len() as int;
    assert(x.done.len() + x.pending.len() == n && y.done.len() + y.pending.len() == n);
    if n == 0 {
        assert(x.done.len() == 0 && y.done.len() == 0);
    } else {
        assert(x.pending.len() >= 1 && y.pending.len() >= 1);
        lemma_unique_multiple(n - 1, x.done.len() as int, b);
        lemma_unique_multiple(n - 1, y.done.len() as int, b);
    }
    assert(x.done =~= stream(x).subrange(0, x.done.len() as int));
    assert(y.done =~= stream(y).subrange(0, y.done.len() as int));
    assert(x.pending =~= stream(x).subrange(x.done.len() as int, n));
    assert(y.pending =~= stream(y).subrange(y.done.len() as int, n));
}

/// feeding a sequence of pieces
pub open spec fn feed_eager(a: Abs, pieces: Seq<Seq<u8>>, b: int) -> Abs
    decreases pieces.len()
{
    if pieces.len() == 0 { a } else { update_eager(feed_eager(a, pieces.drop_last(), b), pieces.last(), b) }
}
pub open spec fn feed_lazy(a: Abs, pieces: Seq<Seq<u8>>, b: int) -> Abs
    decreases pieces.len()
{
    if pieces.len() == 0 { a } else { update_lazy(feed_lazy(a, pieces.drop_last(), b), pieces.last(), b) }
}
pub open spec fn concat(pieces: Seq<Seq<u8>>) -> Seq<u8>
    decreases pieces.len()
{
    if pieces.len() == 0 { Seq::empty() } else { concat(pieces.drop_last()) + pieces.last() }
}

pub proof fn lemma_feed_eager(a: Abs, pieces: Seq<Seq<u8>>, b: int)
    requires inv_eager(a, b),
    ensures inv_eager(feed_eager(a, pieces, b), b), stream(feed_eager(a, pieces, b)) =~= stream(a) + concat(pieces),
    decreases pieces.len()
{
    if pieces.len() > 0 {
        lemma_feed_eager(a, pieces.drop_last(), b);
        lemma_update_eager(feed_eager(a, pieces.drop_last(), b), pieces.last(), b);
        assert(stream(a) + concat(pieces.drop_last()) + pieces.last() =~= stream(a) + (concat(pieces.drop_last()) + pieces.last()));
    } else {
        assert(stream(a) + Seq::<u8>::empty() =~= stream(a));
    }
}
pub proof fn lemma_feed_lazy(a: Abs, pieces: Seq<Seq<u8>>, b: int)
    requires inv_lazy(a, b),
    ensures inv_lazy(feed_lazy(a, pieces, b), b), stream(feed_lazy(a, pieces, b)) =~= stream(a) + concat(pieces),
    decreases pieces.len()
{
    if pieces.len() > 0 {
        lemma_feed_lazy(a, pieces.drop_last(), b);
        lemma_update_lazy(feed_lazy(a, pieces.drop_last(), b), pieces.last(), b);
        assert(stream(a) + concat(pieces.drop_last()) + pieces.last() =~= stream(a) + (concat(pieces.drop_last()) + pieces.last()));
    } else {
        assert(stream(a) + Seq::<u8>::empty() =~= stream(a));
    }
}

/// C08: any two partitions of the same message, fed from the same state, reach the same state
pub proof fn theorem_chunking_invariance_eager(a: Abs, p1: Seq<Seq<u8>>, p2: Seq<Seq<u8>>, b: int)
    requires inv_eager(a, b), concat(p1) =~= concat(p2),
    ensures feed_eager(a, p1, b).done =~= feed_eager(a, p2, b).done, feed_eager(a, p1, b).pending =~= feed_eager(a, p2, b).pending,
{
    lemma_feed_eager(a, p1, b);
    lemma_feed_eager(a, p2, b);
    lemma_canonical_eager(feed_eager(a, p1, b), feed_eager(a, p2, b), b);
}
pub proof fn theorem_chunking_invariance_lazy(a: Abs, p1: Seq<Seq<u8>>, p2: Seq<Seq<u8>>, b: int)
    requires inv_lazy(a, b), concat(p1) =~= concat(p2),
    ensures feed_lazy(a, p1, b).done =~= feed_lazy(a, p2, b).done, feed_lazy(a, p1, b).pending =~= feed_lazy(a, p2, b).pending,
{
    lemma_feed_lazy(a, p1, b);
    lemma_feed_lazy(a, p2, b);
    lemma_canonical_lazy(feed_lazy(a, p1, b), feed_lazy(a, p2, b), b);
}

} // verus!
fn main() {}
