// ChaCha specification, written from Bernstein's "ChaCha, a variant of Salsa20" and RFC 7539 section 2
// (not from /repo).  Two formulations: the standard one on 16 words (spec A) and the row-vector one
// (spec B) whose round layer `round_rows` is the unit the implementation's `guts::round` is
// contracted against; `lemma_double_round` connects them.
#![allow(dead_code)]

pub const SIGMA: [u32; 4] = [0x6170_7865, 0x3320_646e, 0x7962_2d32, 0x6b20_6574];
pub type Rows = [[u32; 4]; 4];

#[inline(always)]
pub fn qr(mut a: u32, mut b: u32, mut c: u32, mut d: u32) -> (u32, u32, u32, u32) {
    a = a.wrapping_add(b); d ^= a; d = d.rotate_left(16);
    c = c.wrapping_add(d); b ^= c; b = b.rotate_left(12);
    a = a.wrapping_add(b); d ^= a; d = d.rotate_left(8);
    c = c.wrapping_add(d); b ^= c; b = b.rotate_left(7);
    (a, b, c, d)
}
fn qr_at(x: &mut [u32; 16], i: usize, j: usize, k: usize, l: usize) {
    let (a, b, c, d) = qr(x[i], x[j], x[k], x[l]);
    x[i] = a; x[j] = b; x[k] = c; x[l] = d;
}
/// spec A: column round then diagonal round (RFC 7539 2.3)
pub fn double_round_std(mut x: [u32; 16]) -> [u32; 16] {
    qr_at(&mut x, 0, 4, 8, 12);
    qr_at(&mut x, 1, 5, 9, 13);
    qr_at(&mut x, 2, 6, 10, 14);
    qr_at(&mut x, 3, 7, 11, 15);
    qr_at(&mut x, 0, 5, 10, 15);
    qr_at(&mut x, 1, 6, 11, 12);
    qr_at(&mut x, 2, 7, 8, 13);
    qr_at(&mut x, 3, 4, 9, 14);
    x
}
pub fn init_state(key: [u32; 8], d: [u32; 4]) -> [u32; 16] {
    [SIGMA[0], SIGMA[1], SIGMA[2], SIGMA[3], key[0], key[1], key[2], key[3], key[4], key[5], key[6], key[7], d[0], d[1], d[2], d[3]]
}
pub fn rounds_std(mut x: [u32; 16], drounds: u32) -> [u32; 16] {
    let mut r = 0;
    while r < drounds { x = double_round_std(x); r += 1; }
    x
}
pub fn block_words(key: [u32; 8], d: [u32; 4], drounds: u32) -> [u32; 16] {
    let s = init_state(key, d);
    let x = rounds_std(s, drounds);
    let mut o = [0u32; 16];
    let mut i = 0;
    while i < 16 { o[i] = x[i].wrapping_add(s[i]); i += 1; }
    o
}
pub fn words_le(w: [u32; 16]) -> [u8; 64] {
    let mut o = [0u8; 64];
    let mut i = 0;
    while i < 64 { o[i] = (w[i / 4] >> (8 * (i % 4))) as u8; i += 1; }
    o
}
/// counter words: 64-bit block counter in d[0] (low), d[1] (high); d[2], d[3] = stream id
pub fn d_add(d: [u32; 4], i: u64) -> [u32; 4] {
    let c = (((d[1] as u64) << 32) | d[0] as u64).wrapping_add(i);
    [c as u32, (c >> 32) as u32, d[2], d[3]]
}
/// HChaCha: rounds only; subkey = words 0..3 and 12..15
pub fn hchacha(key: [u32; 8], n: [u32; 4], drounds: u32) -> [u32; 8] {
    let x = rounds_std(init_state(key, n), drounds);
    [x[0], x[1], x[2], x[3], x[12], x[13], x[14], x[15]]
}

// ---- spec B: rows a,b,c,d as vectors of four words ----
pub fn to_rows(x: [u32; 16]) -> Rows { [[x[0], x[1], x[2], x[3]], [x[4], x[5], x[6], x[7]], [x[8], x[9], x[10], x[11]], [x[12], x[13], x[14], x[15]]] }
pub fn from_rows(r: Rows) -> [u32; 16] {
    [r[0][0], r[0][1], r[0][2], r[0][3], r[1][0], r[1][1], r[1][2], r[1][3], r[2][0], r[2][1], r[2][2], r[2][3], r[3][0], r[3][1], r[3][2], r[3][3]]
}
/// one layer of four parallel quarter-rounds on the columns
pub fn round_rows(r: Rows) -> Rows {
    let mut o = [[0u32; 4]; 4];
    let mut j = 0;
    while j < 4 {
        let (a, b, c, d) = qr(r[0][j], r[1][j], r[2][j], r[3][j]);
        o[0][j] = a; o[1][j] = b; o[2][j] = c; o[3][j] = d;
        j += 1;
    }
    o
}
/// word j of a row moves to position (j + k) mod 4
pub fn rot_row(x: [u32; 4], k: usize) -> [u32; 4] {
    let mut o = [0u32; 4];
    let mut j = 0;
    while j < 4 { o[(j + k) % 4] = x[j]; j += 1; }
    o
}
/// diagonalisation that leaves row b in place: a by 1, c by 3, d by 2
pub fn diag_rows(r: Rows) -> Rows { [rot_row(r[0], 1), r[1], rot_row(r[2], 3), rot_row(r[3], 2)] }
pub fn undiag_rows(r: Rows) -> Rows { [rot_row(r[0], 3), r[1], rot_row(r[2], 1), rot_row(r[3], 2)] }
pub fn double_round_rows<F: FnMut(Rows) -> Rows>(r: Rows, f: &mut F) -> Rows {
    let r = f(r);
    undiag_rows(f(diag_rows(r)))
}
pub fn rounds_rows<F: FnMut(Rows) -> Rows>(mut r: Rows, drounds: u32, f: &mut F) -> Rows {
    let mut i = 0;
    while i < drounds { r = double_round_rows(r, f); i += 1; }
    r
}
pub fn block_rows<F: FnMut(Rows) -> Rows>(key: [u32; 8], d: [u32; 4], drounds: u32, f: &mut F) -> [u32; 16] {
    let s = init_state(key, d);
    let x = from_rows(rounds_rows(to_rows(s), drounds, f));
    let mut o = [0u32; 16];
    let mut i = 0;
    while i < 16 { o[i] = x[i].wrapping_add(s[i]); i += 1; }
    o
}
