// JH compression function F8 / E8, written from "The Hash Function JH" (16 January 2011), sections 3-5
// and its reference (non-bit-sliced) description: 256 four-bit elements, S-boxes S0/S1 selected by the
// round-constant bits, linear transformation L over GF(2^4) on element pairs, permutation
// P8 = phi8 . P'8 . pi8, 42 rounds, grouping / de-grouping, round constants C_r = R6(C_{r-1}).
// Not taken from /repo.
#![allow(dead_code)]

pub const S: [[u8; 16]; 2] = [
    [9, 0, 4, 11, 13, 12, 3, 15, 1, 10, 2, 6, 7, 5, 8, 14],
    [3, 12, 6, 13, 5, 7, 1, 9, 15, 2, 0, 4, 11, 10, 14, 8],
];
/// C_0: the fractional part of sqrt(2), 256 bits, as 64 four-bit elements
pub const C0: [u8; 32] = [
    0x6a, 0x09, 0xe6, 0x67, 0xf3, 0xbc, 0xc9, 0x08, 0xb2, 0xfb, 0x13, 0x66, 0xea, 0x95, 0x7d, 0x3e,
    0x3a, 0xde, 0xc1, 0x75, 0x12, 0x77, 0x50, 0x99, 0xda, 0x2f, 0x59, 0x0b, 0x06, 0x67, 0x32, 0x2a,
];
/// multiplication by 2 in GF(2^4) modulo x^4 + x + 1
#[inline(always)]
pub fn mul2(a: u8) -> u8 { ((a << 1) ^ (a >> 3) ^ ((a >> 2) & 2)) & 0xf }
/// (C, D) = L(A, B):  D = B + 2A,  C = A + 2D
#[inline(always)]
pub fn l(a: u8, b: u8) -> (u8, u8) {
    let d = b ^ mul2(a);
    let c = a ^ mul2(d);
    (c, d)
}
/// one round R_d on 2^d elements: S-box layer (selector bit per element), L on pairs, permutation P_d
pub fn round<const N: usize>(a: [u8; N], sel: [u8; N]) -> [u8; N] {
    let mut t = [0u8; N];
    let mut i = 0;
    while i < N { t[i] = S[(sel[i] & 1) as usize][a[i] as usize & 15]; i += 1; }
    let mut i = 0;
    while i < N { let (c, d) = l(t[i], t[i + 1]); t[i] = c; t[i + 1] = d; i += 2; }
    // pi_d: swap the last two of every four
    let mut i = 0;
    while i < N { let x = t[i + 2]; t[i + 2] = t[i + 3]; t[i + 3] = x; i += 4; }
    // P'_d
    let mut o = [0u8; N];
    let mut i = 0;
    while i < N / 2 { o[i] = t[2 * i]; o[i + N / 2] = t[2 * i + 1]; i += 1; }
    // phi_d: swap adjacent pairs in the second half
    let mut i = N / 2;
    while i < N { let x = o[i]; o[i] = o[i + 1]; o[i + 1] = x; i += 2; }
    o
}
/// the next round constant: R6 with all selector bits 0
pub fn next_constant(c: [u8; 64]) -> [u8; 64] { round::<64>(c, [0u8; 64]) }
pub fn constant0() -> [u8; 64] {
    let mut c = [0u8; 64];
    let mut i = 0;
    while i < 32 { c[2 * i] = C0[i] >> 4; c[2 * i + 1] = C0[i] & 15; i += 1; }
    c
}
/// the 256 selector bits of a round constant given as 64 elements (most significant bit first)
pub fn selector_bits(c: &[u8; 64]) -> [u8; 256] {
    let mut s = [0u8; 256];
    let mut i = 0;
    while i < 64 {
        s[4 * i] = (c[i] >> 3) & 1; s[4 * i + 1] = (c[i] >> 2) & 1; s[4 * i + 2] = (c[i] >> 1) & 1; s[4 * i + 3] = c[i] & 1;
        i += 1;
    }
    s
}
/// bit i of a byte string in the specification's numbering (bit 0 = most significant bit of byte 0)
#[inline(always)]
pub fn bit(h: &[u8; 128], i: usize) -> u8 { (h[i >> 3] >> (7 - (i & 7))) & 1 }
/// grouping (section 3.2 / E8 initial grouping)
pub fn group(h: &[u8; 128]) -> [u8; 256] {
    let mut tem = [0u8; 256];
    let mut i = 0;
    while i < 256 {
        tem[i] = (bit(h, i) << 3) | (bit(h, i + 256) << 2) | (bit(h, i + 512) << 1) | bit(h, i + 768);
        i += 1;
    }
    let mut a = [0u8; 256];
    let mut i = 0;
    while i < 128 { a[2 * i] = tem[i]; a[2 * i + 1] = tem[i + 128]; i += 1; }
    a
}
/// de-grouping
pub fn degroup(a: &[u8; 256]) -> [u8; 128] {
    let mut tem = [0u8; 256];
    let mut i = 0;
    while i < 128 { tem[i] = a[2 * i]; tem[i + 128] = a[2 * i + 1]; i += 1; }
    let mut h = [0u8; 128];
    let mut i = 0;
    while i < 256 {
        let t = tem[i];
        h[i >> 3] |= ((t >> 3) & 1) << (7 - (i & 7));
        h[(i + 256) >> 3] |= ((t >> 2) & 1) << (7 - (i & 7));
        h[(i + 512) >> 3] |= ((t >> 1) & 1) << (7 - (i & 7));
        h[(i + 768) >> 3] |= (t & 1) << (7 - (i & 7));
        i += 1;
    }
    h
}
pub fn e8(h: &[u8; 128]) -> [u8; 128] {
    let mut a = group(h);
    let mut c = constant0();
    let mut r = 0;
    while r < 42 {
        a = round::<256>(a, selector_bits(&c));
        c = next_constant(c);
        r += 1;
    }
    degroup(&a)
}
pub fn f8(h: &[u8; 128], m: &[u8; 64]) -> [u8; 128] {
    let mut x = *h;
    let mut i = 0;
    while i < 64 { x[i] ^= m[i]; i += 1; }
    let mut y = e8(&x);
    let mut i = 0;
    while i < 64 { y[64 + i] ^= m[i]; i += 1; }
    y
}
