// Groestl permutations P and Q, written from "Groestl - a SHA-3 candidate" (final round tweak,
// 2011-03-02), section 3.4 (AddRoundConstant, SubBytes, ShiftBytes, MixBytes), not from /repo.
// The state is an 8 x C byte matrix (C = 8 for the 512-bit, 16 for the 1024-bit permutations), held
// here by rows; the input byte sequence fills it column by column (A[i][j] = byte i + 8j).
// The S-box is a parameter: the specification's S-box is the AES S-box, which is also what the
// AESENCLAST instruction applies; the harnesses use one symbolic table for both sides.
#![allow(dead_code)]

pub fn mul2(x: u8) -> u8 { (x << 1) ^ (if x & 0x80 != 0 { 0x1b } else { 0 }) }
pub fn gmul(c: u8, x: u8) -> u8 {
    let x2 = mul2(x);
    let x4 = mul2(x2);
    match c {
        2 => x2,
        3 => x2 ^ x,
        4 => x4,
        5 => x4 ^ x,
        7 => x4 ^ x2 ^ x,
        _ => 0,
    }
}
/// MixBytes: every column is multiplied by B = circ(02, 02, 03, 04, 05, 03, 05, 07)
pub fn mix_bytes<const C: usize>(a: [[u8; C]; 8]) -> [[u8; C]; 8] {
    const CIRC: [u8; 8] = [2, 2, 3, 4, 5, 3, 5, 7];
    let mut o = [[0u8; C]; 8];
    let mut i = 0;
    while i < 8 {
        let mut j = 0;
        while j < C {
            let mut acc = 0u8;
            let mut k = 0;
            while k < 8 {
                acc ^= gmul(CIRC[(k + 8 - i) % 8], a[k][j]);
                k += 1;
            }
            o[i][j] = acc;
            j += 1;
        }
        i += 1;
    }
    o
}
pub const SIGMA_P512: [usize; 8] = [0, 1, 2, 3, 4, 5, 6, 7];
pub const SIGMA_Q512: [usize; 8] = [1, 3, 5, 7, 0, 2, 4, 6];
pub const SIGMA_P1024: [usize; 8] = [0, 1, 2, 3, 4, 5, 6, 11];
pub const SIGMA_Q1024: [usize; 8] = [1, 3, 5, 11, 0, 2, 4, 6];

fn sub_shift_mix<const C: usize>(a: [[u8; C]; 8], sbox: &[u8; 256], sigma: [usize; 8]) -> [[u8; C]; 8] {
    // SubBytes then ShiftBytes (row i rotated left by sigma[i] positions)
    let mut s = [[0u8; C]; 8];
    let mut i = 0;
    while i < 8 {
        let mut j = 0;
        while j < C {
            s[i][j] = sbox[a[i][(j + sigma[i]) % C] as usize];
            j += 1;
        }
        i += 1;
    }
    mix_bytes(s)
}
/// round r of P: constant (j << 4) ^ r into row 0
pub fn round_p<const C: usize>(a: [[u8; C]; 8], r: u8, sbox: &[u8; 256], sigma: [usize; 8]) -> [[u8; C]; 8] {
    let mut a = a;
    let mut j = 0;
    while j < C { a[0][j] ^= ((j as u8) << 4) ^ r; j += 1; }
    sub_shift_mix(a, sbox, sigma)
}
/// round r of Q: 0xff into every byte, and (j << 4) ^ r additionally into row 7
pub fn round_q<const C: usize>(a: [[u8; C]; 8], r: u8, sbox: &[u8; 256], sigma: [usize; 8]) -> [[u8; C]; 8] {
    let mut a = a;
    let mut i = 0;
    while i < 8 {
        let mut j = 0;
        while j < C { a[i][j] ^= 0xff; j += 1; }
        i += 1;
    }
    let mut j = 0;
    while j < C { a[7][j] ^= ((j as u8) << 4) ^ r; j += 1; }
    sub_shift_mix(a, sbox, sigma)
}
/// matrix (by rows) of a byte sequence filling the columns, and back
pub fn from_bytes<const C: usize, const N: usize>(b: &[u8; N]) -> [[u8; C]; 8] {
    let mut a = [[0u8; C]; 8];
    let mut k = 0;
    while k < N { a[k % 8][k / 8] = b[k]; k += 1; }
    a
}
pub fn to_bytes<const C: usize, const N: usize>(a: &[[u8; C]; 8]) -> [u8; N] {
    let mut b = [0u8; N];
    let mut k = 0;
    while k < N { b[k] = a[k % 8][k / 8]; k += 1; }
    b
}
pub fn xor_m<const C: usize>(a: [[u8; C]; 8], b: [[u8; C]; 8]) -> [[u8; C]; 8] {
    let mut o = a;
    let mut i = 0;
    while i < 8 { let mut j = 0; while j < C { o[i][j] ^= b[i][j]; j += 1; } i += 1; }
    o
}
