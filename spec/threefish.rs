// Threefish specification, written from "The Skein Hash Function Family" v1.3, section 3.3
// (tables 3 and 4); constants are copied from the paper, NOT from /repo.
// The MIX function is a parameter so that the same text serves as the specification over the real
// MIX and over an uninterpreted one (modular rule, DESIGN.md 3.2).
#![allow(dead_code)]

pub const C240: u64 = 0x1BD1_1BDA_A9FC_1A22;

// Table 4: rotation constants R[d mod 8][j]
pub const R4: [[u32; 2]; 8] = [[14, 16], [52, 57], [23, 40], [5, 37], [25, 33], [46, 12], [58, 22], [32, 32]];
pub const R8: [[u32; 4]; 8] = [
    [46, 36, 19, 37], [33, 27, 14, 42], [17, 49, 36, 39], [44, 9, 54, 56],
    [39, 30, 34, 24], [13, 50, 10, 17], [25, 29, 39, 43], [8, 35, 56, 22],
];
pub const R16: [[u32; 8]; 8] = [
    [24, 13, 8, 47, 8, 17, 22, 37], [38, 19, 10, 55, 49, 18, 23, 52], [33, 4, 51, 13, 34, 41, 59, 17],
    [5, 20, 48, 41, 47, 28, 16, 25], [41, 9, 37, 31, 12, 47, 44, 30], [16, 34, 56, 51, 4, 53, 42, 41],
    [31, 44, 47, 46, 19, 42, 44, 25], [9, 48, 35, 52, 23, 31, 37, 20],
];
// Table 3: word permutation pi: v_{d+1,i} = f_{d,pi(i)}
pub const PI4: [usize; 4] = [0, 3, 2, 1];
pub const PI8: [usize; 8] = [2, 1, 4, 7, 6, 5, 0, 3];
pub const PI16: [usize; 16] = [0, 9, 2, 13, 6, 11, 4, 15, 10, 7, 12, 3, 14, 5, 8, 1];

/// MIX_{d,j}: y0 = x0 + x1 mod 2^64; y1 = (x1 <<< R) xor y0
pub fn mix(r: u32, x: (u64, u64)) -> (u64, u64) {
    let y0 = x.0.wrapping_add(x.1);
    (y0, x.1.rotate_left(r) ^ y0)
}
pub fn inv_mix(r: u32, y: (u64, u64)) -> (u64, u64) {
    let x1 = (y.0 ^ y.1).rotate_right(r);
    (y.0.wrapping_sub(x1), x1)
}

macro_rules! tf_spec {
    ($ks:ident, $enc:ident, $dec:ident, $round:ident, $inv_round:ident, $round_core:ident, $inv_core:ident, $nw:expr, $nr:expr, $R:ident, $PI:ident) => {
        /// key schedule (3.3.2): k_Nw = C240 ^ k_0 ^ ... ; t_2 = t_0 ^ t_1
        pub fn $ks(key: [u64; $nw], t0: u64, t1: u64) -> [[u64; $nw]; $nr / 4 + 1] {
            let mut k = [0u64; $nw + 1];
            let mut x = C240;
            let mut i = 0;
            while i < $nw { k[i] = key[i]; x ^= key[i]; i += 1; }
            k[$nw] = x;
            let t = [t0, t1, t0 ^ t1];
            let mut sk = [[0u64; $nw]; $nr / 4 + 1];
            let mut s = 0;
            while s <= $nr / 4 {
                let mut i = 0;
                while i < $nw {
                    let base = k[(s + i) % ($nw + 1)];
                    sk[s][i] = if i == $nw - 3 { base.wrapping_add(t[s % 3]) }
                        else if i == $nw - 2 { base.wrapping_add(t[(s + 1) % 3]) }
                        else if i == $nw - 1 { base.wrapping_add(s as u64) }
                        else { base };
                    i += 1;
                }
                s += 1;
            }
            sk
        }
        /// the body of a round: optional subkey injection, Nw/2 MIX functions with the given rotation
        /// constants, word permutation
        pub fn $round_core<F: FnMut(u32, (u64, u64)) -> (u64, u64)>(inject: Option<[u64; $nw]>, rot: [u32; $nw / 2], v: [u64; $nw], f: &mut F) -> [u64; $nw] {
            let mut e = v;
            if let Some(k) = inject {
                let mut i = 0;
                while i < $nw { e[i] = v[i].wrapping_add(k[i]); i += 1; }
            }
            let mut ff = [0u64; $nw];
            let mut j = 0;
            while j < $nw / 2 {
                let (y0, y1) = f(rot[j], (e[2 * j], e[2 * j + 1]));
                ff[2 * j] = y0;
                ff[2 * j + 1] = y1;
                j += 1;
            }
            let mut o = [0u64; $nw];
            let mut i = 0;
            while i < $nw { o[i] = ff[$PI[i]]; i += 1; }
            o
        }
        /// inverse of the round body: undo the permutation, inverse MIX, remove the subkey
        pub fn $inv_core<F: FnMut(u32, (u64, u64)) -> (u64, u64)>(inject: Option<[u64; $nw]>, rot: [u32; $nw / 2], v: [u64; $nw], g: &mut F) -> [u64; $nw] {
            let mut ff = [0u64; $nw];
            let mut i = 0;
            while i < $nw { ff[$PI[i]] = v[i]; i += 1; }
            let mut e = [0u64; $nw];
            let mut j = 0;
            while j < $nw / 2 {
                let (x0, x1) = g(rot[j], (ff[2 * j], ff[2 * j + 1]));
                e[2 * j] = x0;
                e[2 * j + 1] = x1;
                j += 1;
            }
            if let Some(k) = inject {
                let mut i = 0;
                while i < $nw { e[i] = e[i].wrapping_sub(k[i]); i += 1; }
            }
            e
        }
        /// round d (3.3.1): subkey d/4 is injected when d mod 4 == 0; rotation constants R[d mod 8]
        pub fn $round<F: FnMut(u32, (u64, u64)) -> (u64, u64)>(sk: &[[u64; $nw]; $nr / 4 + 1], d: usize, v: [u64; $nw], f: &mut F) -> [u64; $nw] {
            $round_core(if d % 4 == 0 { Some(sk[d / 4]) } else { None }, $R[d % 8], v, f)
        }
        pub fn $inv_round<F: FnMut(u32, (u64, u64)) -> (u64, u64)>(sk: &[[u64; $nw]; $nr / 4 + 1], d: usize, v: [u64; $nw], g: &mut F) -> [u64; $nw] {
            $inv_core(if d % 4 == 0 { Some(sk[d / 4]) } else { None }, $R[d % 8], v, g)
        }
        /// encryption: rounds 0..Nr in order, then the final subkey
        pub fn $enc<F: FnMut(u32, (u64, u64)) -> (u64, u64)>(sk: &[[u64; $nw]; $nr / 4 + 1], p: [u64; $nw], f: &mut F) -> [u64; $nw] {
            let mut v = p;
            let mut d = 0;
            while d < $nr { v = $round(sk, d, v, f); d += 1; }
            let mut c = [0u64; $nw];
            let mut i = 0;
            while i < $nw { c[i] = v[i].wrapping_add(sk[$nr / 4][i]); i += 1; }
            c
        }
        /// decryption: remove the final subkey, then the inverse rounds Nr-1..0
        pub fn $dec<F: FnMut(u32, (u64, u64)) -> (u64, u64)>(sk: &[[u64; $nw]; $nr / 4 + 1], c: [u64; $nw], g: &mut F) -> [u64; $nw] {
            let mut v = [0u64; $nw];
            let mut i = 0;
            while i < $nw { v[i] = c[i].wrapping_sub(sk[$nr / 4][i]); i += 1; }
            let mut d = $nr;
            while d > 0 { d -= 1; v = $inv_round(sk, d, v, g); }
            v
        }
    };
}
tf_spec!(key_schedule_256, encrypt_256, decrypt_256, round_256, inv_round_256, round_core_256, inv_core_256, 4, 72, R4, PI4);
tf_spec!(key_schedule_512, encrypt_512, decrypt_512, round_512, inv_round_512, round_core_512, inv_core_512, 8, 72, R8, PI8);
tf_spec!(key_schedule_1024, encrypt_1024, decrypt_1024, round_1024, inv_round_1024, round_core_1024, inv_core_1024, 16, 80, R16, PI16);
