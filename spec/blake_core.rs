// BLAKE compression function, written from "SHA-3 proposal BLAKE" v1.3 sections 2.1.2 / 2.2.2
// (constants, permutations sigma, G function, round structure, finalization), not from /repo.
// Formulation A is the document's (16-word state v, G_i on index quadruples); formulation B is the
// row-vector one (rows a,b,c,d; column step, then diagonal step with row b left in place) whose
// round layer `round_rows` is the unit the implementation's round32/round64 are contracted against.
// `lemma` harnesses prove A == B for a full round with the real G.
#![allow(dead_code)]

pub const SIGMA: [[usize; 16]; 10] = [
    [0, 1, 2, 3, 4, 5, 6, 7, 8, 9, 10, 11, 12, 13, 14, 15],
    [14, 10, 4, 8, 9, 15, 13, 6, 1, 12, 0, 2, 11, 7, 5, 3],
    [11, 8, 12, 0, 5, 2, 15, 13, 10, 14, 3, 6, 7, 1, 9, 4],
    [7, 9, 3, 1, 13, 12, 11, 14, 2, 6, 5, 10, 4, 0, 15, 8],
    [9, 0, 5, 7, 2, 4, 10, 15, 14, 1, 11, 12, 6, 8, 3, 13],
    [2, 12, 6, 10, 0, 11, 8, 3, 4, 13, 7, 5, 15, 14, 1, 9],
    [12, 5, 1, 15, 14, 13, 4, 10, 0, 7, 6, 3, 9, 2, 8, 11],
    [13, 11, 7, 14, 12, 1, 3, 9, 5, 0, 15, 4, 8, 6, 2, 10],
    [6, 15, 14, 9, 11, 3, 0, 8, 12, 2, 13, 7, 1, 4, 10, 5],
    [10, 2, 8, 4, 7, 6, 1, 5, 15, 11, 9, 14, 3, 12, 13, 0],
];
pub const C32: [u32; 16] = [
    0x243F6A88, 0x85A308D3, 0x13198A2E, 0x03707344, 0xA4093822, 0x299F31D0, 0x082EFA98, 0xEC4E6C89,
    0x452821E6, 0x38D01377, 0xBE5466CF, 0x34E90C6C, 0xC0AC29B7, 0xC97C50DD, 0x3F84D5B5, 0xB5470917,
];
pub const C64: [u64; 16] = [
    0x243F6A8885A308D3, 0x13198A2E03707344, 0xA4093822299F31D0, 0x082EFA98EC4E6C89,
    0x452821E638D01377, 0xBE5466CF34E90C6C, 0xC0AC29B7C97C50DD, 0x3F84D5B5B5470917,
    0x9216D5D98979FB1B, 0xD1310BA698DFB5AC, 0x2FFD72DBD01ADFB7, 0xB8E1AFED6A267E96,
    0xBA7C9045F12C7F99, 0x24A19947B3916CF7, 0x0801F2E2858EFC16, 0x636920D871574E69,
];

macro_rules! blake_core {
    ($w:ident, $C:ident, $rounds:expr, $r0:expr, $r1:expr, $r2:expr, $r3:expr,
     $g:ident, $round_std:ident, $round_rows:ident, $rows_ty:ident, $compress_rows:ident, $round_b:ident, $compress_std:ident, $msg_cols:ident, $msg_diag:ident) => {
        pub type $rows_ty = [[$w; 4]; 4];
        /// G with the message/constant words already combined: x = m[s(2i)] ^ c[s(2i+1)], y = m[s(2i+1)] ^ c[s(2i)]
        #[inline(always)]
        pub fn $g(mut a: $w, mut b: $w, mut c: $w, mut d: $w, x: $w, y: $w) -> ($w, $w, $w, $w) {
            a = a.wrapping_add(b).wrapping_add(x); d = (d ^ a).rotate_right($r0);
            c = c.wrapping_add(d); b = (b ^ c).rotate_right($r1);
            a = a.wrapping_add(b).wrapping_add(y); d = (d ^ a).rotate_right($r2);
            c = c.wrapping_add(d); b = (b ^ c).rotate_right($r3);
            (a, b, c, d)
        }
        /// formulation A: one round r on the 16-word state
        pub fn $round_std(mut v: [$w; 16], m: &[$w; 16], r: usize) -> [$w; 16] {
            let s = &SIGMA[r % 10];
            const IDX: [[usize; 4]; 8] = [[0, 4, 8, 12], [1, 5, 9, 13], [2, 6, 10, 14], [3, 7, 11, 15], [0, 5, 10, 15], [1, 6, 11, 12], [2, 7, 8, 13], [3, 4, 9, 14]];
            let mut i = 0;
            while i < 8 {
                let q = IDX[i];
                let x = m[s[2 * i]] ^ $C[s[2 * i + 1]];
                let y = m[s[2 * i + 1]] ^ $C[s[2 * i]];
                let (a, b, c, d) = $g(v[q[0]], v[q[1]], v[q[2]], v[q[3]], x, y);
                v[q[0]] = a; v[q[1]] = b; v[q[2]] = c; v[q[3]] = d;
                i += 1;
            }
            v
        }
        /// the unit contracted against round32/round64: four parallel G on the columns
        pub fn $round_rows(r: $rows_ty, x: [$w; 4], y: [$w; 4]) -> $rows_ty {
            let mut o = [[0 as $w; 4]; 4];
            let mut j = 0;
            while j < 4 {
                let (a, b, c, d) = $g(r[0][j], r[1][j], r[2][j], r[3][j], x[j], y[j]);
                o[0][j] = a; o[1][j] = b; o[2][j] = c; o[3][j] = d;
                j += 1;
            }
            o
        }
        pub fn $msg_cols(m: &[$w; 16], r: usize) -> ([$w; 4], [$w; 4]) {
            let s = &SIGMA[r % 10];
            let mut x = [0 as $w; 4];
            let mut y = [0 as $w; 4];
            let mut j = 0;
            while j < 4 { x[j] = m[s[2 * j]] ^ $C[s[2 * j + 1]]; y[j] = m[s[2 * j + 1]] ^ $C[s[2 * j]]; j += 1; }
            (x, y)
        }
        /// diagonal step with row b fixed: column j carries G_{4+((j+3) mod 4)}
        pub fn $msg_diag(m: &[$w; 16], r: usize) -> ([$w; 4], [$w; 4]) {
            let s = &SIGMA[r % 10];
            let mut x = [0 as $w; 4];
            let mut y = [0 as $w; 4];
            let mut j = 0;
            while j < 4 {
                let e = 8 + 2 * ((j + 3) % 4);
                x[j] = m[s[e]] ^ $C[s[e + 1]];
                y[j] = m[s[e + 1]] ^ $C[s[e]];
                j += 1;
            }
            (x, y)
        }
        /// formulation B: one round over a round-layer function f
        pub fn $round_b<F: FnMut($rows_ty, [$w; 4], [$w; 4]) -> $rows_ty>(rows: $rows_ty, m: &[$w; 16], r: usize, f: &mut F) -> $rows_ty {
            let (x, y) = $msg_cols(m, r);
            let rows = f(rows, x, y);
            let rot = |v: [$w; 4], k: usize| { let mut o = [0 as $w; 4]; let mut j = 0; while j < 4 { o[(j + k) % 4] = v[j]; j += 1; } o };
            let dg = [rot(rows[0], 1), rows[1], rot(rows[2], 3), rot(rows[3], 2)];
            let (x, y) = $msg_diag(m, r);
            let dg = f(dg, x, y);
            [rot(dg[0], 3), dg[1], rot(dg[2], 1), rot(dg[3], 2)]
        }
        /// compression (salt 0): h' = h ^ v[0..8] ^ v[8..16], formulation B over f
        pub fn $compress_rows<F: FnMut($rows_ty, [$w; 4], [$w; 4]) -> $rows_ty>(h: [$w; 8], m: &[$w; 16], t: ($w, $w), f: &mut F) -> [$w; 8] {
            let mut rows: $rows_ty = [[h[0], h[1], h[2], h[3]], [h[4], h[5], h[6], h[7]], [$C[0], $C[1], $C[2], $C[3]],
                                      [$C[4] ^ t.0, $C[5] ^ t.0, $C[6] ^ t.1, $C[7] ^ t.1]];
            let mut r = 0;
            while r < $rounds { rows = $round_b(rows, m, r, f); r += 1; }
            let mut o = [0 as $w; 8];
            let mut i = 0;
            while i < 4 { o[i] = h[i] ^ rows[0][i] ^ rows[2][i]; o[4 + i] = h[4 + i] ^ rows[1][i] ^ rows[3][i]; i += 1; }
            o
        }
        /// compression, formulation A
        pub fn $compress_std(h: [$w; 8], m: &[$w; 16], t: ($w, $w)) -> [$w; 8] {
            let mut v = [0 as $w; 16];
            let mut i = 0;
            while i < 8 { v[i] = h[i]; v[8 + i] = $C[i]; i += 1; }
            v[12] ^= t.0; v[13] ^= t.0; v[14] ^= t.1; v[15] ^= t.1;
            let mut r = 0;
            while r < $rounds { v = $round_std(v, m, r); r += 1; }
            let mut o = [0 as $w; 8];
            let mut i = 0;
            while i < 8 { o[i] = h[i] ^ v[i] ^ v[i + 8]; i += 1; }
            o
        }
    };
}
blake_core!(u32, C32, 14, 16, 12, 8, 7, g32, round_std32, round_rows32, Rows32, compress_rows32, round_b32, compress_std32, msg_cols32, msg_diag32);
blake_core!(u64, C64, 16, 32, 25, 16, 11, g64, round_std64, round_rows64, Rows64, compress_rows64, round_b64, compress_std64, msg_cols64, msg_diag64);
