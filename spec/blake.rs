// BLAKE mode-of-operation specification, written from "SHA-3 proposal BLAKE" v1.3 (sections 2.1.3,
// 2.2.3 padding; 2.1.1/2.2.1 initial values; counter rule of 2.1.2), not from /repo.
#![allow(dead_code)]

pub const IV224: [u32; 8] = [0xc1059ed8, 0x367cd507, 0x3070dd17, 0xf70e5939, 0xffc00b31, 0x68581511, 0x64f98fa7, 0xbefa4fa4];
pub const IV256: [u32; 8] = [0x6a09e667, 0xbb67ae85, 0x3c6ef372, 0xa54ff53a, 0x510e527f, 0x9b05688c, 0x1f83d9ab, 0x5be0cd19];
pub const IV384: [u64; 8] = [0xcbbb9d5dc1059ed8, 0x629a292a367cd507, 0x9159015a3070dd17, 0x152fecd8f70e5939,
                             0x67332667ffc00b31, 0x8eb44a8768581511, 0xdb0c2e0d64f98fa7, 0x47b5481dbefa4fa4];
pub const IV512: [u64; 8] = [0x6a09e667f3bcc908, 0xbb67ae8584caa73b, 0x3c6ef372fe94f82b, 0xa54ff53a5f1d36f1,
                             0x510e527fade682d1, 0x9b05688c2b3e6c1f, 0x1f83d9abfb41bd6b, 0x5be0cd19137e2179];

/// The final block(s) of a message of `tbits + 8*p` bits whose last p bytes (p < B) are `pending`.
/// B = 64 (length field 8 bytes) or 128 (16 bytes).  Returns (number of blocks, blocks, counters):
/// the counter of a block is the number of message bits up to and including that block, and 0 for a
/// block that contains no message bit.
pub fn final_blocks<const B: usize>(pending: &[u8; B], p: usize, tbits: u128, full_variant: bool) -> (usize, [[u8; B]; 2], [u128; 2]) {
    let lenbytes = B / 8;
    let l: u128 = tbits + 8 * p as u128;
    let mut blocks = [[0u8; B]; 2];
    let mut i = 0;
    while i < p { blocks[0][i] = pending[i]; i += 1; }
    blocks[0][p] = 0x80;
    let nblocks = if p + 1 + lenbytes <= B { 1 } else { 2 };
    let last = nblocks - 1;
    if full_variant { blocks[last][B - lenbytes - 1] |= 0x01; }
    let mut i = 0;
    while i < lenbytes {
        // big-endian length in the last lenbytes bytes
        blocks[last][B - 1 - i] = (l >> (8 * i)) as u8;
        i += 1;
    }
    let mut ctr = [0u128; 2];
    if p > 0 { ctr[0] = l; }
    (nblocks, blocks, ctr)
}
