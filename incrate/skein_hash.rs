// Included into skein-hash by its cfg(cryptocorrosion_verif) hook: state accessors (H-state) and the
// contract stub of process_block (it must name the private State/Block types).
include!(concat!(env!("CRYPTOCORROSION_VERIF_DIR"), "/incrate/recorder.rs"));
use crate::{Block, Skein1024, Skein256, Skein512, State, T1_FLAG_FIRST};
use digest::generic_array::typenum::{NonZero, Unsigned, U128, U32, U64};
use digest::generic_array::{ArrayLength, GenericArray};

macro_rules! skein {
    ($T:ident, $NB:ty, $nb:expr, $contract:ident, $get:ident, $set:ident, $real:ident) => {
        /// Contract of process_block: t0 += add; x := UBI-step(x, (t0, t1), block) [uninterpreted];
        /// t1 &= !FIRST.
        pub fn $contract<N: Unsigned + ArrayLength<u8> + NonZero + Default>(state: &mut State<Block<$NB>>, block: &GenericArray<u8, $NB>, byte_count_add: usize) {
            assert!(state.t.0.checked_add(byte_count_add as u64).is_some(), "byte counter overflow");
            state.t.0 += byte_count_add as u64;
            let xin = state.x.as_byte_array().clone();
            let o = rec::record(1, &xin[..], &block[..], [state.t.0, state.t.1]);
            state.x = Block::from_byte_array(GenericArray::from_slice(&o[..$nb]));
            state.t.1 &= !T1_FLAG_FIRST;
        }
        pub fn $get<N: Unsigned + ArrayLength<u8> + NonZero + Default>(h: &$T<N>) -> ((u64, u64), [u8; 128], usize) {
            let mut x = [0u8; 128];
            let b = h.state.x.as_byte_array();
            let mut i = 0;
            while i < $nb { x[i] = b[i]; i += 1; }
            (h.state.t, x, h.buffer.position())
        }
        pub fn $set<N: Unsigned + ArrayLength<u8> + NonZero + Default>(h: &mut $T<N>, t: (u64, u64), x: &[u8; 128]) {
            h.state.t = t;
            h.state.x = Block::from_byte_array(GenericArray::from_slice(&x[..$nb]));
        }
        /// the real process_block on explicit state (for the UBI-step contract)
        pub fn $real(t: (u64, u64), x: &[u8; $nb], block: &[u8; $nb], add: usize) -> ((u64, u64), [u8; $nb]) {
            let mut st = State { t, x: Block::from_byte_array(GenericArray::from_slice(&x[..])) };
            $T::<$NB>::process_block(&mut st, GenericArray::from_slice(&block[..]), add);
            let mut o = [0u8; $nb];
            let b = st.x.as_byte_array();
            let mut i = 0;
            while i < $nb { o[i] = b[i]; i += 1; }
            (st.t, o)
        }
    };
}
skein!(Skein256, U32, 32, process_block256_contract, s256, s256_set, process_block256_real);
skein!(Skein512, U64, 64, process_block512_contract, s512, s512_set, process_block512_real);
skein!(Skein1024, U128, 128, process_block1024_contract, s1024, s1024_set, process_block1024_real);
