// Included into threefish-cipher by its cfg(cryptocorrosion_verif) hook.  Only re-exports
// crate-private items (mix, inv_mix, LE word I/O, the subkey table); no logic.
use crate::{Threefish1024, Threefish256, Threefish512};

pub fn mix(r: u32, x: (u64, u64)) -> (u64, u64) { crate::mix(r, x) }
pub fn inv_mix(r: u32, y: (u64, u64)) -> (u64, u64) { crate::inv_mix(r, y) }
pub fn read_u64v_le(ns: &mut [u64], buf: &[u8]) { crate::read_u64v_le(ns, buf) }
pub fn write_u64v_le(buf: &mut [u8], ns: &[u64]) { crate::write_u64v_le(buf, ns) }

pub fn sk256(c: &Threefish256) -> [[u64; 4]; 19] { c.sk }
pub fn sk512(c: &Threefish512) -> [[u64; 8]; 19] { c.sk }
pub fn sk1024(c: &Threefish1024) -> [[u64; 16]; 21] { c.sk }
pub fn from_sk256(sk: [[u64; 4]; 19]) -> Threefish256 { Threefish256 { sk } }
pub fn from_sk512(sk: [[u64; 8]; 19]) -> Threefish512 { Threefish512 { sk } }
pub fn from_sk1024(sk: [[u64; 16]; 21]) -> Threefish1024 { Threefish1024 { sk } }
