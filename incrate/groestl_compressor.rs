// Included into groestl-aesni's `compressor` module by its cfg(cryptocorrosion_verif) hook: byte-array
// views of the module-private building blocks (X4 = 64 bytes, X8 = 128 bytes, in register order) and
// uninterpreted-function stubs that must name X4/X8.  No change of behaviour.
use super::*;
use block_buffer::generic_array::typenum::{U128, U64};
use block_buffer::generic_array::GenericArray;
use core::mem::transmute;

pub fn mul2_real(x: [u8; 16]) -> [u8; 16] { unsafe { transmute(mul2(transmute(x))) } }
pub fn submix_real(a: [u8; 128]) -> [u8; 128] { unsafe { transmute(submix(transmute::<[u8; 128], X8>(a))) } }
pub fn round_real(i: i64, a: [u8; 128]) -> [u8; 128] { unsafe { transmute(round(i, transmute::<[u8; 128], X8>(a))) } }
pub fn transpose_a_real(a: [u8; 64]) -> [u8; 64] { unsafe { transmute(transpose_a(transmute::<[u8; 64], X4>(a))) } }
pub fn transpose_b_real(a: [u8; 128]) -> [u8; 128] { unsafe { transmute(transpose_b(transmute::<[u8; 128], X8>(a))) } }
pub fn transpose_b_inv_real(a: [u8; 128]) -> [u8; 128] { unsafe { transmute(transpose_b_inv(transmute::<[u8; 128], X8>(a))) } }
pub fn transpose_o_b_real(a: [u8; 64]) -> [u8; 128] { unsafe { transmute(transpose_o_b(transmute::<[u8; 64], X4>(a))) } }
pub fn transpose_o_b_inv_real(a: [u8; 128]) -> [u8; 64] { unsafe { transmute(transpose_o_b_inv(transmute::<[u8; 128], X8>(a))) } }
pub fn transpose_real(a: [u8; 128]) -> [u8; 128] { unsafe { transmute(transpose(transmute::<[u8; 128], X8>(a))) } }
pub fn transpose_inv_real(a: [u8; 128]) -> [u8; 128] { unsafe { transmute(transpose_inv(transmute::<[u8; 128], X8>(a))) } }
pub fn rounds_p_real(a: [u8; 128]) -> [u8; 128] { unsafe { transmute(rounds_p(transmute::<[u8; 128], X8>(a))) } }
pub fn rounds_q_real(a: [u8; 128]) -> [u8; 128] { unsafe { transmute(rounds_q(transmute::<[u8; 128], X8>(a))) } }
pub fn tf512_real(cv: [u8; 64], data: &[u8; 64]) -> [u8; 64] { unsafe { let mut c: X4 = transmute(cv); tf512_impl(&mut c, data.as_ptr()); transmute(c) } }
pub fn of512_real(cv: [u8; 64]) -> [u8; 64] { unsafe { let mut c: X4 = transmute(cv); of512_impl(&mut c); transmute(c) } }
pub fn init512_real(cv: [u8; 64]) -> [u8; 64] { unsafe { transmute(init512_impl(transmute::<[u8; 64], X4>(cv))) } }
pub fn tf1024_real(cv: [u8; 128], data: &[u8; 128]) -> [u8; 128] { unsafe { let mut c: X8 = transmute(cv); tf1024_impl(&mut c, data.as_ptr()); transmute(c) } }
pub fn of1024_real(cv: [u8; 128]) -> [u8; 128] { unsafe { let mut c: X8 = transmute(cv); of1024_impl(&mut c); transmute(c) } }
pub fn init1024_real(cv: [u8; 128]) -> [u8; 128] { unsafe { transmute(init1024_impl(transmute::<[u8; 128], X8>(cv))) } }

// ---- uninterpreted-function stubs (call log) for the wiring proofs ----
pub const MAXC: usize = 64;
pub static mut UF_KIND: [i64; MAXC] = [0; MAXC]; // round index for `round`, -1 for `submix`
pub static mut UF_IN: [[u8; 128]; MAXC] = [[0; 128]; MAXC];
pub static mut UF_OUT: [[u8; 128]; MAXC] = [[0; 128]; MAXC];
pub static mut UF_N: usize = 0;
#[cfg(kani)]
fn fresh() -> [u8; 128] { kani::any() }
#[cfg(not(kani))]
fn fresh() -> [u8; 128] { panic!("contract stubs exist only under the verifier") }
pub unsafe fn round_uf(i: i64, a: X8) -> X8 {
    let k = UF_N;
    assert!(k < MAXC);
    UF_KIND[k] = i;
    UF_IN[k] = transmute(a);
    let o = fresh();
    UF_OUT[k] = o;
    UF_N = k + 1;
    transmute(o)
}
pub unsafe fn submix_uf(a: X8) -> X8 {
    let k = UF_N;
    assert!(k < MAXC);
    UF_KIND[k] = -1;
    UF_IN[k] = transmute(a);
    let o = fresh();
    UF_OUT[k] = o;
    UF_N = k + 1;
    transmute(o)
}

// ---- dispatch: the public entry points of this module (run-time selected function pointers) with the
//      *_impl bodies replaced by recorders, to check that every selectable wrapper forwards to the
//      matching implementation with unchanged arguments
pub static mut D_WHICH: u8 = 0; // 1 tf512, 2 of512, 3 init512, 4 tf1024, 5 of1024, 6 init1024
pub static mut D_CALLS: u32 = 0;
pub static mut D_PTR_OK: bool = false;
pub static mut D_EXPECT_PTR: usize = 0;
pub unsafe fn tf512_impl_rec(cv: &mut X4, data: *const u8) { D_WHICH = 1; D_CALLS += 1; D_PTR_OK = data as usize == D_EXPECT_PTR; let o = fresh(); UF_IN[0] = [0; 128]; let c: [u8; 64] = transmute(*cv); let mut i = 0; while i < 64 { UF_IN[0][i] = c[i]; i += 1; } UF_OUT[0] = o; let mut n = [0u8; 64]; let mut i = 0; while i < 64 { n[i] = o[i]; i += 1; } *cv = transmute(n); }
pub unsafe fn of512_impl_rec(cv: &mut X4) { D_WHICH = 2; D_CALLS += 1; let o = fresh(); let c: [u8; 64] = transmute(*cv); let mut i = 0; while i < 64 { UF_IN[0][i] = c[i]; i += 1; } UF_OUT[0] = o; let mut n = [0u8; 64]; let mut i = 0; while i < 64 { n[i] = o[i]; i += 1; } *cv = transmute(n); }
pub unsafe fn init512_impl_rec(cv: X4) -> X4 { D_WHICH = 3; D_CALLS += 1; let o = fresh(); let c: [u8; 64] = transmute(cv); let mut i = 0; while i < 64 { UF_IN[0][i] = c[i]; i += 1; } UF_OUT[0] = o; let mut n = [0u8; 64]; let mut i = 0; while i < 64 { n[i] = o[i]; i += 1; } transmute(n) }
pub unsafe fn tf1024_impl_rec(cv: &mut X8, data: *const u8) { D_WHICH = 4; D_CALLS += 1; D_PTR_OK = data as usize == D_EXPECT_PTR; let o = fresh(); UF_IN[0] = transmute(*cv); UF_OUT[0] = o; *cv = transmute(o); }
pub unsafe fn of1024_impl_rec(cv: &mut X8) { D_WHICH = 5; D_CALLS += 1; let o = fresh(); UF_IN[0] = transmute(*cv); UF_OUT[0] = o; *cv = transmute(o); }
pub unsafe fn init1024_impl_rec(cv: X8) -> X8 { D_WHICH = 6; D_CALLS += 1; let o = fresh(); UF_IN[0] = transmute(cv); UF_OUT[0] = o; transmute(o) }
pub fn dispatch_tf512(cv: [u8; 64], data: &GenericArray<u8, U64>) -> [u8; 64] { unsafe { D_EXPECT_PTR = data.as_ptr() as usize; let mut c: X4 = transmute(cv); super::tf512(&mut c, data); transmute(c) } }
pub fn dispatch_of512(cv: [u8; 64]) -> [u8; 64] { unsafe { let mut c: X4 = transmute(cv); super::of512(&mut c); transmute(c) } }
pub fn dispatch_init512(cv: [u8; 64]) -> [u8; 64] { unsafe { transmute(super::init512(transmute::<[u8; 64], X4>(cv))) } }
pub fn dispatch_tf1024(cv: [u8; 128], data: &GenericArray<u8, U128>) -> [u8; 128] { unsafe { D_EXPECT_PTR = data.as_ptr() as usize; let mut c: X8 = transmute(cv); super::tf1024(&mut c, data); transmute(c) } }
pub fn dispatch_of1024(cv: [u8; 128]) -> [u8; 128] { unsafe { let mut c: X8 = transmute(cv); super::of1024(&mut c); transmute(c) } }
pub fn dispatch_init1024(cv: [u8; 128]) -> [u8; 128] { unsafe { transmute(super::init1024(transmute::<[u8; 128], X8>(cv))) } }
