// Included into groestl-aesni by its cfg(cryptocorrosion_verif) hook: state accessors (H-state) and
// contract stubs of the compression entry points (they must name the private types X4/X8).
include!(concat!(env!("CRYPTOCORROSION_VERIF_DIR"), "/incrate/recorder.rs"));
use crate::compressor::{X4, X8};
use crate::{Groestl224, Groestl256, Groestl384, Groestl512};
use block_buffer::generic_array::typenum::{U128, U64};
use block_buffer::generic_array::GenericArray;

fn x4_bytes(cv: &X4) -> [u8; 64] { unsafe { core::mem::transmute(*cv) } }
fn x4_from(b: &[u8; 128]) -> X4 {
    let mut a = [0u8; 64];
    let mut i = 0;
    while i < 64 { a[i] = b[i]; i += 1; }
    unsafe { core::mem::transmute(a) }
}
fn x8_bytes(cv: &X8) -> [u8; 128] { unsafe { core::mem::transmute(*cv) } }
fn x8_from(b: &[u8; 128]) -> X8 { unsafe { core::mem::transmute(*b) } }

// kinds: 1 = compression (tf), 2 = output transformation (of), 3 = initial-value conversion (init)
pub fn tf512_contract(cv: &mut X4, data: &GenericArray<u8, U64>) { let o = rec::record(1, &x4_bytes(cv), &data[..], [0, 0]); *cv = x4_from(&o); }
pub fn of512_contract(cv: &mut X4) { let o = rec::record(2, &x4_bytes(cv), &[], [0, 0]); *cv = x4_from(&o); }
pub fn init512_contract(cv: X4) -> X4 { let o = rec::record(3, &x4_bytes(&cv), &[], [0, 0]); x4_from(&o) }
pub fn tf1024_contract(cv: &mut X8, data: &GenericArray<u8, U128>) { let o = rec::record(1, &x8_bytes(cv), &data[..], [0, 0]); *cv = x8_from(&o); }
pub fn of1024_contract(cv: &mut X8) { let o = rec::record(2, &x8_bytes(cv), &[], [0, 0]); *cv = x8_from(&o); }
pub fn init1024_contract(cv: X8) -> X8 { let o = rec::record(3, &x8_bytes(&cv), &[], [0, 0]); x8_from(&o) }

// counters go through `as` conversions so that the hook compiles whatever integer type the field has
pub fn g256(h: &mut Groestl256) -> (u128, [u8; 128], usize) {
    let mut cv = [0u8; 128];
    let b = x4_bytes(&h.compressor.cv);
    let mut i = 0;
    while i < 64 { cv[i] = b[i]; i += 1; }
    let pos = h.buffer.position();
    (h.block_counter as u128, cv, pos)
}
pub fn g256_set_counter(h: &mut Groestl256, c: u128) { h.block_counter = c as _; }
pub fn g256_set_cv(h: &mut Groestl256, cv: &[u8; 128]) { h.compressor.cv = x4_from(cv); }
pub fn g512(h: &mut Groestl512) -> (u128, [u8; 128], usize) {
    let cv = x8_bytes(&h.compressor.cv);
    let pos = h.buffer.position();
    (h.block_counter as u128, cv, pos)
}
pub fn g512_set_counter(h: &mut Groestl512, c: u128) { h.block_counter = c as _; }
pub fn g512_set_cv(h: &mut Groestl512, cv: &[u8; 128]) { h.compressor.cv = x8_from(cv); }
pub fn g224(h: &mut Groestl224) -> &mut Groestl256 { &mut h.0 }
pub fn g384(h: &mut Groestl384) -> &mut Groestl512 { &mut h.0 }
pub use crate::compressor::verif_incrate as cc;
