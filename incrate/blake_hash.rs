// Included into blake-hash by its cfg(cryptocorrosion_verif) hook: state accessors (H-state), the
// contract stub of Compressor*::put_block for the mode-layer proofs, and re-exports of the private
// round functions for the core proofs.  No change of behaviour.
include!(concat!(env!("CRYPTOCORROSION_VERIF_DIR"), "/incrate/recorder.rs"));
use crate::{Blake224, Blake256, Blake384, Blake512, Compressor256, Compressor512};
use digest::generic_array::typenum::{U128, U64};
use digest::generic_array::GenericArray;
use simd::Machine;

pub fn h256(c: &Compressor256) -> [u32; 8] {
    let a: [u32; 4] = c.h[0].into();
    let b: [u32; 4] = c.h[1].into();
    [a[0], a[1], a[2], a[3], b[0], b[1], b[2], b[3]]
}
pub fn set_h256(c: &mut Compressor256, h: [u32; 8]) {
    c.h = [[h[0], h[1], h[2], h[3]].into(), [h[4], h[5], h[6], h[7]].into()];
}
pub fn h512(c: &Compressor512) -> [u64; 8] {
    let a: [u64; 4] = c.h[0].into();
    let b: [u64; 4] = c.h[1].into();
    [a[0], a[1], a[2], a[3], b[0], b[1], b[2], b[3]]
}
pub fn set_h512(c: &mut Compressor512, h: [u64; 8]) {
    c.h = [[h[0], h[1], h[2], h[3]].into(), [h[4], h[5], h[6], h[7]].into()];
}
macro_rules! accessors {
    ($T:ident, $w:ident, $get_t:ident, $set_t:ident, $comp:ident, $pos:ident, $C:ident) => {
        pub fn $get_t(h: &$T) -> ($w, $w) { h.t }
        pub fn $set_t(h: &mut $T, t: ($w, $w)) { h.t = t; }
        pub fn $comp(h: &mut $T) -> &mut $C { &mut h.compressor }
        pub fn $pos(h: &$T) -> usize { h.buffer.position() }
    };
}
accessors!(Blake224, u32, t224, set_t224, comp224, pos224, Compressor256);
accessors!(Blake256, u32, t256, set_t256, comp256, pos256, Compressor256);
accessors!(Blake384, u64, t384, set_t384, comp384, pos384, Compressor512);
accessors!(Blake512, u64, t512, set_t512, comp512, pos512, Compressor512);

/// Contract stub of Compressor256::put_block: h := F(h, block, t) with F uninterpreted.
pub fn put_block256_contract(c: &mut Compressor256, block: &GenericArray<u8, U64>, t: (u32, u32)) {
    let h = h256(c);
    let mut hb = [0u8; 32];
    let mut i = 0;
    while i < 8 { let b = h[i].to_be_bytes(); hb[4 * i] = b[0]; hb[4 * i + 1] = b[1]; hb[4 * i + 2] = b[2]; hb[4 * i + 3] = b[3]; i += 1; }
    let out = rec::record(1, &hb, &block[..], [t.0 as u64, t.1 as u64]);
    let mut nh = [0u32; 8];
    let mut i = 0;
    while i < 8 { nh[i] = u32::from_be_bytes([out[4 * i], out[4 * i + 1], out[4 * i + 2], out[4 * i + 3]]); i += 1; }
    set_h256(c, nh);
}
pub fn put_block512_contract(c: &mut Compressor512, block: &GenericArray<u8, U128>, t: (u64, u64)) {
    let h = h512(c);
    let mut hb = [0u8; 64];
    let mut i = 0;
    while i < 8 { let b = h[i].to_be_bytes(); let mut j = 0; while j < 8 { hb[8 * i + j] = b[j]; j += 1; } i += 1; }
    let out = rec::record(1, &hb, &block[..], [t.0, t.1]);
    let mut nh = [0u64; 8];
    let mut i = 0;
    while i < 8 {
        nh[i] = u64::from_be_bytes([out[8 * i], out[8 * i + 1], out[8 * i + 2], out[8 * i + 3], out[8 * i + 4], out[8 * i + 5], out[8 * i + 6], out[8 * i + 7]]);
        i += 1;
    }
    set_h512(c, nh);
}

// ---- core: private round functions ----
pub fn round32<M: Machine>(s: (M::u32x4, M::u32x4, M::u32x4, M::u32x4), m0: M::u32x4, m1: M::u32x4) -> (M::u32x4, M::u32x4, M::u32x4, M::u32x4) {
    crate::round32::<M>(s, m0, m1)
}
pub fn round64<M: Machine>(s: (M::u64x4, M::u64x4, M::u64x4, M::u64x4), m0: M::u64x4, m1: M::u64x4) -> (M::u64x4, M::u64x4, M::u64x4, M::u64x4) {
    crate::round64::<M>(s, m0, m1)
}
pub fn diagonalize<X4: simd::Words4>(s: (X4, X4, X4, X4)) -> (X4, X4, X4, X4) { crate::diagonalize(s) }
pub fn undiagonalize<X4: simd::Words4>(s: (X4, X4, X4, X4)) -> (X4, X4, X4, X4) { crate::undiagonalize(s) }
pub fn finalize256(c: Compressor256) -> GenericArray<u8, digest::generic_array::typenum::U32> { c.finalize() }
pub fn finalize512(c: Compressor512) -> GenericArray<u8, U64> { c.finalize() }
/// the dispatching private methods (run through the real dispatch! arms by the core-wiring harnesses)
pub fn put_block256(c: &mut Compressor256, block: &GenericArray<u8, U64>, t: (u32, u32)) { c.put_block(block, t) }
pub fn put_block512(c: &mut Compressor512, block: &GenericArray<u8, U128>, t: (u64, u64)) { c.put_block(block, t) }
pub fn new256(h: [u32; 8]) -> Compressor256 { let mut c = Compressor256::default(); set_h256(&mut c, h); c }
pub fn new512(h: [u64; 8]) -> Compressor512 { let mut c = Compressor512::default(); set_h512(&mut c, h); c }
