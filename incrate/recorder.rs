// Ghost call-log used by the in-crate contract stubs of the hash crates (DESIGN.md 3.2 / 4 C04-C08):
// a stubbed compression function appends (kind, chaining value in, block, auxiliary words) and
// returns a fresh symbolic chaining value, which is logged too.
#[allow(static_mut_refs, dead_code)]
pub mod rec {
    pub const MAXL: usize = 12;
    pub static mut N: usize = 0;
    pub static mut KIND: [u8; MAXL] = [0; MAXL];
    pub static mut CV_IN: [[u8; 128]; MAXL] = [[0; 128]; MAXL];
    pub static mut BLOCK: [[u8; 128]; MAXL] = [[0; 128]; MAXL];
    pub static mut AUX: [[u64; 2]; MAXL] = [[0; 2]; MAXL];
    pub static mut CV_OUT: [[u8; 128]; MAXL] = [[0; 128]; MAXL];
    pub fn reset() {
        unsafe { N = 0; }
    }
    pub fn count() -> usize {
        unsafe { N }
    }
    #[cfg(kani)]
    pub fn record(kind: u8, cv_in: &[u8], block: &[u8], aux: [u64; 2]) -> [u8; 128] {
        unsafe {
            let k = N;
            assert!(k < MAXL);
            KIND[k] = kind;
            let mut i = 0;
            while i < cv_in.len() { CV_IN[k][i] = cv_in[i]; i += 1; }
            let mut i = 0;
            while i < block.len() { BLOCK[k][i] = block[i]; i += 1; }
            AUX[k] = aux;
            let out: [u8; 128] = kani::any();
            CV_OUT[k] = out;
            N = k + 1;
            out
        }
    }
    #[cfg(not(kani))]
    pub fn record(_kind: u8, _cv_in: &[u8], _block: &[u8], _aux: [u64; 2]) -> [u8; 128] {
        panic!("contract stubs exist only under the verifier")
    }
}
