// Included into jh-x86_64's `compressor` module by its cfg(cryptocorrosion_verif) hook (the stubs must
// name the module-private X8<M>, ss, l and the round-constant table).  No change of behaviour.
// ---- F8 core: uninterpreted-function stubs and re-exports (they must name the private X8<M>) ----
use super as comp;
use simd::{vec128_storage, vec256_storage, Machine};

pub const F8_MAXC: usize = 90;
pub static mut F8_KIND: [u8; F8_MAXC] = [0; F8_MAXC]; // 1 = ss, 2 = l
pub static mut F8_IN: [[[u32; 4]; 8]; F8_MAXC] = [[[0; 4]; 8]; F8_MAXC];
pub static mut F8_K: [[[u32; 4]; 2]; F8_MAXC] = [[[0; 4]; 2]; F8_MAXC];
pub static mut F8_OUT: [[[u32; 4]; 8]; F8_MAXC] = [[[0; 4]; 8]; F8_MAXC];
pub static mut F8_N: usize = 0;

fn w<M: Machine>(v: M::u128x1) -> [u32; 4] { let s: vec128_storage = v.into(); s.into() }
fn mk<M: Machine>(a: [u32; 4]) -> M::u128x1 { unsafe { M::instance() }.unpack(vec128_storage::from(a)) }
fn x8_words<M: Machine>(s: comp::X8<M>) -> [[u32; 4]; 8] {
    [w::<M>(s.0), w::<M>(s.1), w::<M>(s.2), w::<M>(s.3), w::<M>(s.4), w::<M>(s.5), w::<M>(s.6), w::<M>(s.7)]
}
fn x8_from<M: Machine>(a: [[u32; 4]; 8]) -> comp::X8<M> {
    comp::X8(mk::<M>(a[0]), mk::<M>(a[1]), mk::<M>(a[2]), mk::<M>(a[3]), mk::<M>(a[4]), mk::<M>(a[5]), mk::<M>(a[6]), mk::<M>(a[7]))
}
fn k_words<M: Machine>(k: M::u128x2) -> [[u32; 4]; 2] {
    let s: vec256_storage = k.into();
    let p = s.split128();
    [p[0].into(), p[1].into()]
}
#[cfg(kani)]
fn fresh() -> [[u32; 4]; 8] { kani::any() }
#[cfg(not(kani))]
fn fresh() -> [[u32; 4]; 8] { panic!("contract stubs exist only under the verifier") }

pub fn ss_uf<M: Machine>(state: comp::X8<M>, k: M::u128x2) -> comp::X8<M> {
    unsafe {
        let i = F8_N;
        assert!(i < F8_MAXC);
        F8_KIND[i] = 1;
        F8_IN[i] = x8_words::<M>(state);
        F8_K[i] = k_words::<M>(k);
        let o = fresh();
        F8_OUT[i] = o;
        F8_N = i + 1;
        x8_from::<M>(o)
    }
}
pub fn l_uf<M: Machine>(y: comp::X8<M>) -> comp::X8<M> {
    unsafe {
        let i = F8_N;
        assert!(i < F8_MAXC);
        F8_KIND[i] = 2;
        F8_IN[i] = x8_words::<M>(y);
        let o = fresh();
        F8_OUT[i] = o;
        F8_N = i + 1;
        x8_from::<M>(o)
    }
}
/// the real S-box layer / linear layer on word views (for the leaf contracts)
pub fn ss_real<M: Machine>(state: [[u32; 4]; 8], k: [[u32; 4]; 2]) -> [[u32; 4]; 8] {
    let m = unsafe { M::instance() };
    let kk: M::u128x2 = m.unpack(vec256_storage::new128([vec128_storage::from(k[0]), vec128_storage::from(k[1])]));
    x8_words::<M>(comp::ss::<M>(x8_from::<M>(state), kk))
}
pub fn l_real<M: Machine>(y: [[u32; 4]; 8]) -> [[u32; 4]; 8] { x8_words::<M>(comp::l::<M>(x8_from::<M>(y))) }
pub fn round_constants() -> &'static [[u8; 32]; 42] { &comp::E8_BITSLICE_ROUNDCONSTANT }
