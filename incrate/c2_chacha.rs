// Included into c2-chacha by its cfg(cryptocorrosion_verif) hook.  Only re-exports crate-private
// items so that the harness crate (/verif/kani/chacha) can put them under contract; no logic.
use crate::guts::{self, ChaCha, State};
use ppv_lite86::{vec128_storage, ArithOps, BitOps32, LaneWords4};

pub fn round<V: ArithOps + BitOps32>(a: V, b: V, c: V, d: V) -> (V, V, V, V) {
    let s = guts::round(State { a, b, c, d });
    (s.a, s.b, s.c, s.d)
}
pub fn diagonalize<V: LaneWords4>(a: V, b: V, c: V, d: V) -> (V, V, V, V) {
    let s = guts::diagonalize(State { a, b, c, d });
    (s.a, s.b, s.c, s.d)
}
pub fn undiagonalize<V: LaneWords4>(a: V, b: V, c: V, d: V) -> (V, V, V, V) {
    let s = guts::undiagonalize(State { a, b, c, d });
    (s.a, s.b, s.c, s.d)
}
pub fn state_parts<V>(s: State<V>) -> (V, V, V, V) {
    (s.a, s.b, s.c, s.d)
}
pub fn state_from_parts<V>(a: V, b: V, c: V, d: V) -> State<V> {
    State { a, b, c, d }
}
pub fn chacha_parts(s: &ChaCha) -> (vec128_storage, vec128_storage, vec128_storage) {
    (s.b, s.c, s.d)
}
pub fn chacha_from_parts(b: vec128_storage, c: vec128_storage, d: vec128_storage) -> ChaCha {
    ChaCha { b, c, d }
}
pub fn refill_rounds(s: &mut ChaCha, drounds: u32) -> State<vec128_storage> {
    s.refill_rounds(drounds)
}
