// Included into jh-x86_64 by its cfg(cryptocorrosion_verif) hook: state accessors (H-state), the
// contract stub of Compressor::input, and re-exports of the private F8 building blocks.
include!(concat!(env!("CRYPTOCORROSION_VERIF_DIR"), "/incrate/recorder.rs"));
use crate::compressor::Compressor;
use crate::{Jh224, Jh256, Jh384, Jh512};
use digest::generic_array::typenum::U64;
use digest::generic_array::GenericArray;

pub fn input_contract(c: &mut Compressor, data: &GenericArray<u8, U64>) {
    let cin = c.finalize();
    let o = rec::record(1, &cin, &data[..], [0, 0]);
    *c = Compressor::new(o);
}
macro_rules! accessors {
    ($T:ident, $f:ident, $set:ident) => {
        pub fn $f(h: &mut $T) -> (&mut usize, [u8; 128], usize) {
            let cv = h.state.finalize();
            let pos = h.buffer.position();
            (&mut h.datalen, cv, pos)
        }
        pub fn $set(h: &mut $T, cv: &[u8; 128]) { h.state = Compressor::new(*cv); }
    };
}
accessors!(Jh224, j224, j224_set_cv);
accessors!(Jh256, j256, j256_set_cv);
accessors!(Jh384, j384, j384_set_cv);
accessors!(Jh512, j512, j512_set_cv);
