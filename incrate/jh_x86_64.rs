// Included into jh-x86_64 by its cfg(cryptocorrosion_verif) hook: state accessors (H-state), the
// contract stub of Compressor::input, and re-exports of the private F8 building blocks.
include!(concat!(env!("CRYPTOCORROSION_VERIF_DIR"), "/incrate/recorder.rs"));
use crate::compressor::Compressor;
use crate::{Jh224, Jh256, Jh384, Jh512};
use digest::generic_array::typenum::U64;
use digest::generic_array::GenericArray;

pub fn input_contract(c: &mut Compressor, data: &GenericArray<u8, U64>) {
    let cin = c.finalize();
    let o = rec::record(1, &cin, &data[..], [0, 0]);
    *c = Compressor::new(o);
}
macro_rules! accessors {
    ($T:ident, $f:ident, $set:ident, $setd:ident) => {
        // the counter is read and written through `as` conversions so that the hook compiles whatever integer
        // type the field has (a narrowed counter must fail a contract, not the build)
        pub fn $f(h: &mut $T) -> (u128, [u8; 128], usize) {
            let cv = h.state.finalize();
            let pos = h.buffer.position();
            (h.datalen as u128, cv, pos)
        }
        pub fn $setd(h: &mut $T, n: u128) { h.datalen = n as _; }
        pub fn $set(h: &mut $T, cv: &[u8; 128]) { h.state = Compressor::new(*cv); }
    };
}
accessors!(Jh224, j224, j224_set_cv, j224_set_datalen);
accessors!(Jh256, j256, j256_set_cv, j256_set_datalen);
accessors!(Jh384, j384, j384_set_cv, j384_set_datalen);
accessors!(Jh512, j512, j512_set_cv, j512_set_datalen);
