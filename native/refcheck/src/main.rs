// Native differential search (DESIGN.md 3.8): when a contract over an uninterpreted callee fails, the
// verifier's counterexample has no native meaning, so the driver looks for a concrete failing input
// by running the REAL crate against complete reference implementations assembled from the same
// specification files the contracts use (spec/*.rs), on boundary and pseudo-random inputs,
// partitions, reuse patterns and fast-forwarded counters.  A reported mismatch is a real failing
// input; finding none proves nothing.  On the unchanged tree every family must report no mismatch
// (which also cross-checks the specification files against the crate's known-answer behaviour).
#![allow(dead_code, non_snake_case)]
#[path = "../spec/chacha.rs"] mod spec_chacha;
#[path = "../spec/blake.rs"] mod spec_blake;
#[path = "../spec/blake_core.rs"] mod spec_blake_core;
#[path = "../spec/groestl.rs"] mod spec_groestl;
#[path = "../spec/jh.rs"] mod spec_jh;
#[path = "../spec/threefish.rs"] mod spec_threefish;
mod rng;
mod fam_chacha;
mod fam_blake;
mod fam_groestl;
mod fam_jh;
mod fam_skein;
mod fam_threefish;
mod fam_align;

pub static mut MISMATCHES: u32 = 0;
pub static mut CASES: u64 = 0;
pub fn case() { unsafe { CASES += 1; } }
pub fn report(family: &str, what: &str, detail: String) {
    unsafe {
        MISMATCHES += 1;
        if MISMATCHES <= 24 { println!("MISMATCH family={} case={} {}", family, what, detail); }
    }
}
pub fn hex(b: &[u8]) -> String { b.iter().map(|x| format!("{:02x}", x)).collect() }

fn main() {
    let a: Vec<String> = std::env::args().collect();
    let fam = a.get(1).map(|s| s.as_str()).unwrap_or("all");
    let seed: u64 = a.get(2).and_then(|s| s.parse().ok()).unwrap_or(1);
    let iters: usize = a.get(3).and_then(|s| s.parse().ok()).unwrap_or(300);
    if fam == "align-child" { fam_align::child(); println!("REFCHECK family=align-child cases={} mismatches={}", unsafe { CASES }, unsafe { MISMATCHES }); std::process::exit(if unsafe { MISMATCHES } > 0 { 1 } else { 0 }); }
    let r = std::panic::catch_unwind(|| {
        if fam == "chacha" || fam == "all" { fam_chacha::run(seed, iters); }
        if fam == "blake" || fam == "all" { fam_blake::run(seed, iters); }
        if fam == "groestl" || fam == "all" { fam_groestl::run(seed, iters); }
        if fam == "jh" || fam == "all" { fam_jh::run(seed, iters); }
        if fam == "skein" || fam == "all" { fam_skein::run(seed, iters); }
        if fam == "threefish" || fam == "all" { fam_threefish::run(seed, iters); }
        if fam == "align" || fam == "all" { fam_align::run(seed, iters); }
    });
    if r.is_err() { println!("MISMATCH family={} case=panic the crate panicked (see stderr)", fam); unsafe { MISMATCHES += 1; } }
    let n = unsafe { MISMATCHES };
    println!("REFCHECK family={} cases={} mismatches={}", fam, unsafe { CASES }, n);
    std::process::exit(if n > 0 { 1 } else { 0 });
}
