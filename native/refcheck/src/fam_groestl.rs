// Groestl family: complete reference hash from spec/groestl.rs (P, Q) with the AES S-box computed
// from its definition (inverse in GF(2^8) modulo x^8+x^4+x^3+x+1, then the affine map).
use crate::fam_blake::drive;
use crate::rng::Rng;
use crate::spec_groestl as sg;
use groestl_aesni::{Groestl224, Groestl256, Groestl384, Groestl512};

fn gf_mul(mut a: u8, mut b: u8) -> u8 { let mut p = 0; while b != 0 { if b & 1 != 0 { p ^= a; } a = sg::mul2(a); b >>= 1; } p }
pub fn aes_sbox() -> [u8; 256] {
    let mut s = [0u8; 256];
    for x in 0..256usize {
        let mut inv = 0u8;
        if x != 0 { for y in 1..256usize { if gf_mul(x as u8, y as u8) == 1 { inv = y as u8; break; } } }
        s[x] = inv ^ inv.rotate_left(1) ^ inv.rotate_left(2) ^ inv.rotate_left(3) ^ inv.rotate_left(4) ^ 0x63;
    }
    s
}
fn perm<const C: usize>(a: [[u8; C]; 8], q: bool, sbox: &[u8; 256]) -> [[u8; C]; 8] {
    let rounds = if C == 8 { 10 } else { 14 };
    let sig = match (C, q) { (8, false) => sg::SIGMA_P512, (8, true) => sg::SIGMA_Q512, (_, false) => sg::SIGMA_P1024, (_, true) => sg::SIGMA_Q1024 };
    let mut a = a;
    for r in 0..rounds { a = if q { sg::round_q::<C>(a, r as u8, sbox, sig) } else { sg::round_p::<C>(a, r as u8, sbox, sig) }; }
    a
}
fn hash<const C: usize, const N: usize>(outlen: usize, msg: &[u8], sbox: &[u8; 256]) -> Vec<u8> {
    let mut iv = [0u8; N];
    let bits = (outlen * 8) as u64;
    for i in 0..8 { iv[N - 1 - i] = (bits >> (8 * i)) as u8; }
    let mut h: [[u8; C]; 8] = sg::from_bytes::<C, N>(&iv);
    let mut m = msg.to_vec();
    m.push(0x80);
    while m.len() % N != N - 8 { m.push(0); }
    let nblocks = (m.len() + 8) / N;
    m.extend_from_slice(&(nblocks as u64).to_be_bytes());
    for k in 0..nblocks {
        let mut b = [0u8; N];
        b.copy_from_slice(&m[N * k..N * k + N]);
        let mm: [[u8; C]; 8] = sg::from_bytes::<C, N>(&b);
        let p = perm::<C>(sg::xor_m(h, mm), false, sbox);
        let q = perm::<C>(mm, true, sbox);
        h = sg::xor_m(sg::xor_m(h, p), q);
    }
    let o: [u8; N] = sg::to_bytes::<C, N>(&sg::xor_m(perm::<C>(h, false, sbox), h));
    o[N - outlen..].to_vec()
}
pub fn run(seed: u64, iters: usize) {
    let mut rng = Rng(seed.wrapping_mul(0x1234_5678_9abc_def1) | 1);
    let sbox = aes_sbox();
    let it = iters / 4 + 10;
    drive::<Groestl224>("groestl", "Groestl224", 64, &|m| hash::<8, 64>(28, m, &sbox), &mut rng, it);
    drive::<Groestl256>("groestl", "Groestl256", 64, &|m| hash::<8, 64>(32, m, &sbox), &mut rng, it);
    drive::<Groestl384>("groestl", "Groestl384", 128, &|m| hash::<16, 128>(48, m, &sbox), &mut rng, it);
    drive::<Groestl512>("groestl", "Groestl512", 128, &|m| hash::<16, 128>(64, m, &sbox), &mut rng, it);
}
