pub struct Rng(pub u64);
impl Rng {
    pub fn next(&mut self) -> u64 { self.0 ^= self.0 << 13; self.0 ^= self.0 >> 7; self.0 ^= self.0 << 17; self.0 }
    pub fn below(&mut self, n: usize) -> usize { (self.next() % n as u64) as usize }
    pub fn bytes(&mut self, n: usize) -> Vec<u8> { (0..n).map(|_| self.next() as u8).collect() }
    pub fn pick<T: Copy>(&mut self, xs: &[T]) -> T { xs[self.below(xs.len())] }
    /// a random partition of 0..n into pieces, with empty pieces and block-multiple pieces likely
    pub fn partition(&mut self, n: usize, block: usize) -> Vec<usize> {
        let mut out = Vec::new();
        let mut left = n;
        while left > 0 {
            let c = match self.below(8) {
                0 => 0,
                1 => 1,
                2 => block.min(left),
                3 => (2 * block).min(left),
                4 => (block + 1).min(left),
                5 => (block - 1).max(1).min(left),
                _ => 1 + self.below(left),
            };
            out.push(c);
            left -= c;
        }
        if self.below(3) == 0 { out.push(0); }
        out
    }
}
