// JH family: complete reference hash from spec/jh.rs (E8 on 256 four-bit elements).
use crate::fam_blake::drive;
use crate::rng::Rng;
use crate::spec_jh as sj;
use jh_x86_64::{Jh224, Jh256, Jh384, Jh512};

fn hash(outlen: usize, msg: &[u8]) -> Vec<u8> {
    let mut hm1 = [0u8; 128];
    let bits = (outlen * 8) as u16;
    hm1[0] = (bits >> 8) as u8;
    hm1[1] = bits as u8;
    let mut h = sj::f8(&hm1, &[0u8; 64]);
    let mut m = msg.to_vec();
    let l = (msg.len() as u128) * 8;
    // padding: a "1" bit, 384 - 1 + (-l mod 512) zero bits, the 128-bit big-endian length: one extra
    // block for a block-aligned message, otherwise the current block is completed and a full block follows
    m.push(0x80);
    let total = if msg.len() % 64 == 0 { msg.len() + 64 } else { (msg.len() / 64 + 2) * 64 };
    m.resize(total - 16, 0);
    m.extend_from_slice(&l.to_be_bytes());
    for k in 0..m.len() / 64 {
        let mut b = [0u8; 64];
        b.copy_from_slice(&m[64 * k..64 * k + 64]);
        h = sj::f8(&h, &b);
    }
    h[128 - outlen..].to_vec()
}
pub fn run(seed: u64, iters: usize) {
    let mut rng = Rng(seed.wrapping_mul(0x0f0f_1234_5678_9abd) | 1);
    let it = iters / 6 + 8;
    drive::<Jh224>("jh", "Jh224", 64, &|m| hash(28, m), &mut rng, it);
    drive::<Jh256>("jh", "Jh256", 64, &|m| hash(32, m), &mut rng, it);
    drive::<Jh384>("jh", "Jh384", 64, &|m| hash(48, m), &mut rng, it);
    drive::<Jh512>("jh", "Jh512", 64, &|m| hash(64, m), &mut rng, it);
}
