// Threefish family: encryption and decryption against spec/threefish.rs, and the round trip.
use crate::rng::Rng;
use crate::spec_threefish as st;
use crate::{hex, report};
use cipher::generic_array::GenericArray;
use cipher::{BlockDecrypt, BlockEncrypt};
use threefish_cipher::{Threefish1024, Threefish256, Threefish512};

macro_rules! fam {
    ($f:ident, $ty:ident, $nw:expr, $ks:ident, $enc:ident, $dec:ident) => {
        fn $f(rng: &mut Rng, iters: usize) {
            for it in 0..iters {
                crate::case();
                let special = it % 8;
                let mut key = rng.bytes($nw * 8);
                let mut pt = rng.bytes($nw * 8);
                let (mut t0, mut t1) = (rng.next(), rng.next());
                if special == 1 { key.iter_mut().for_each(|b| *b = 0xff); t0 = u64::MAX; t1 = u64::MAX; pt.iter_mut().for_each(|b| *b = 0xff); }
                if special == 2 { key.iter_mut().for_each(|b| *b = 0); t0 = 0; t1 = 0; pt.iter_mut().for_each(|b| *b = 0); }
                let fish = $ty::with_tweak(GenericArray::from_slice(&key), t0, t1);
                let w = |b: &[u8]| { let mut o = [0u64; $nw]; for j in 0..$nw { let mut x = [0u8; 8]; x.copy_from_slice(&b[8 * j..8 * j + 8]); o[j] = u64::from_le_bytes(x); } o };
                let by = |w: [u64; $nw]| { let mut o = Vec::new(); for x in w.iter() { o.extend_from_slice(&x.to_le_bytes()); } o };
                let sk = st::$ks(w(&key), t0, t1);
                let exp = by(st::$enc(&sk, w(&pt), &mut |r, x| st::mix(r, x)));
                let mut b = GenericArray::clone_from_slice(&pt);
                fish.encrypt_block(&mut b);
                if b.as_slice() != &exp[..] { report("threefish", stringify!($ty), format!("encrypt_block differs from the specification: key={} tweak=({:#x},{:#x}) block={}", hex(&key), t0, t1, hex(&pt))); return; }
                fish.decrypt_block(&mut b);
                if b.as_slice() != &pt[..] { report("threefish", stringify!($ty), format!("decrypt_block(encrypt_block(p)) != p: key={} tweak=({:#x},{:#x}) block={}", hex(&key), t0, t1, hex(&pt))); return; }
                let expd = by(st::$dec(&sk, w(&pt), &mut |r, x| st::inv_mix(r, x)));
                let mut c = GenericArray::clone_from_slice(&pt);
                fish.decrypt_block(&mut c);
                if c.as_slice() != &expd[..] { report("threefish", stringify!($ty), format!("decrypt_block differs from the specification: key={} tweak=({:#x},{:#x}) block={}", hex(&key), t0, t1, hex(&pt))); return; }
                fish.encrypt_block(&mut c);
                if c.as_slice() != &pt[..] { report("threefish", stringify!($ty), format!("encrypt_block(decrypt_block(c)) != c: key={} tweak=({:#x},{:#x}) block={}", hex(&key), t0, t1, hex(&pt))); return; }
            }
        }
    };
}
fam!(f256, Threefish256, 4, key_schedule_256, encrypt_256, decrypt_256);
fam!(f512, Threefish512, 8, key_schedule_512, encrypt_512, decrypt_512);
fam!(f1024, Threefish1024, 16, key_schedule_1024, encrypt_1024, decrypt_1024);
pub fn run(seed: u64, iters: usize) {
    let mut rng = Rng(seed.wrapping_mul(0x7777_1234_0000_9abd) | 1);
    f256(&mut rng, iters);
    f512(&mut rng, iters);
    f1024(&mut rng, iters);
}
