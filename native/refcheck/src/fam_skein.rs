// Skein family: complete reference hash (Skein 1.3: UBI chaining over Threefish from spec/threefish.rs,
// configuration block, message blocks, counter-mode output).
use crate::fam_blake::drive;
use crate::rng::Rng;
use crate::spec_threefish as st;
use digest::generic_array::typenum::{U1, U20, U28, U32, U33, U48, U64, U65, U128, U129, U7};
use skein_hash::{Skein1024, Skein256, Skein512};

const FIRST: u64 = 1 << 62;
const FINAL: u64 = 1 << 63;
const T_CFG: u64 = 4 << 56;
const T_MSG: u64 = 48 << 56;
const T_OUT: u64 = 63 << 56;

macro_rules! skein_ref {
    ($name:ident, $nw:expr, $ks:ident, $enc:ident) => {
        fn $name(outlen: usize, msg: &[u8]) -> Vec<u8> {
            const NB: usize = $nw * 8;
            fn ubi(g: [u64; $nw], m: &[u8], ty: u64) -> [u64; $nw] {
                let nblocks = if m.is_empty() { 1 } else { (m.len() + NB - 1) / NB };
                let mut g = g;
                for i in 0..nblocks {
                    let mut b = [0u8; NB];
                    let end = core::cmp::min(m.len(), (i + 1) * NB);
                    b[..end - i * NB].copy_from_slice(&m[i * NB..end]);
                    let mut w = [0u64; $nw];
                    for j in 0..$nw { let mut x = [0u8; 8]; x.copy_from_slice(&b[8 * j..8 * j + 8]); w[j] = u64::from_le_bytes(x); }
                    let t0 = end as u64;
                    let t1 = ty | (if i == 0 { FIRST } else { 0 }) | (if i == nblocks - 1 { FINAL } else { 0 });
                    let sk = st::$ks(g, t0, t1);
                    let c = st::$enc(&sk, w, &mut |r, x| st::mix(r, x));
                    for j in 0..$nw { g[j] = c[j] ^ w[j]; }
                }
                g
            }
            let mut cfg = [0u8; 32];
            cfg[..4].copy_from_slice(b"SHA3");
            cfg[4] = 1;
            cfg[8..16].copy_from_slice(&((outlen * 8) as u64).to_le_bytes());
            let g0 = ubi([0u64; $nw], &cfg, T_CFG);
            let g1 = ubi(g0, msg, T_MSG);
            let mut out = Vec::new();
            let mut i = 0u64;
            while out.len() < outlen {
                let o = ubi(g1, &i.to_le_bytes(), T_OUT);
                for w in o.iter() { out.extend_from_slice(&w.to_le_bytes()); }
                i += 1;
            }
            out.truncate(outlen);
            out
        }
    };
}
skein_ref!(ref256, 4, key_schedule_256, encrypt_256);
skein_ref!(ref512, 8, key_schedule_512, encrypt_512);
skein_ref!(ref1024, 16, key_schedule_1024, encrypt_1024);

pub fn run(seed: u64, iters: usize) {
    let mut rng = Rng(seed.wrapping_mul(0x5555_1234_0000_9abd) | 1);
    let it = iters / 4 + 10;
    drive::<Skein256<U32>>("skein", "Skein256<U32>", 32, &|m| ref256(32, m), &mut rng, it);
    drive::<Skein256<U7>>("skein", "Skein256<U7>", 32, &|m| ref256(7, m), &mut rng, it);
    drive::<Skein256<U33>>("skein", "Skein256<U33>", 32, &|m| ref256(33, m), &mut rng, it);
    drive::<Skein256<U65>>("skein", "Skein256<U65>", 32, &|m| ref256(65, m), &mut rng, it);
    drive::<Skein512<U64>>("skein", "Skein512<U64>", 64, &|m| ref512(64, m), &mut rng, it);
    drive::<Skein512<U1>>("skein", "Skein512<U1>", 64, &|m| ref512(1, m), &mut rng, it);
    drive::<Skein512<U20>>("skein", "Skein512<U20>", 64, &|m| ref512(20, m), &mut rng, it);
    drive::<Skein512<U129>>("skein", "Skein512<U129>", 64, &|m| ref512(129, m), &mut rng, it);
    drive::<Skein1024<U128>>("skein", "Skein1024<U128>", 128, &|m| ref1024(128, m), &mut rng, it);
    drive::<Skein1024<U48>>("skein", "Skein1024<U48>", 128, &|m| ref1024(48, m), &mut rng, it);
    drive::<Skein1024<U28>>("skein", "Skein1024<U28>", 128, &|m| ref1024(28, m), &mut rng, it);
    drive::<Skein1024<U129>>("skein", "Skein1024<U129>", 128, &|m| ref1024(129, m), &mut rng, it);
}
