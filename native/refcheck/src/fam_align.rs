// Alignment / bounds family (C16): byte-slice entry points are run (a) on slices that end exactly at a
// PROT_NONE guard page (an overrun faults), (b) on slices starting at every offset 0..16 from a 64-byte
// aligned base (an aligned-access instruction faults), and the results are compared with the result
// for offset 0.  Runs in a child process; the parent turns a fatal signal into a MISMATCH line naming
// the last case announced by the child.
use crate::report;
use cipher::generic_array::GenericArray;
use cipher::{BlockEncrypt, NewCipher, StreamCipher};
use digest::{Digest};
use ppv_lite86::{Machine, StoreBytes};
use std::io::Write;

extern "C" {
    fn mmap(addr: *mut u8, len: usize, prot: i32, flags: i32, fd: i32, off: i64) -> *mut u8;
    fn mprotect(addr: *mut u8, len: usize, prot: i32) -> i32;
}
const PAGE: usize = 4096;
/// a read/write region of `pages` pages followed by an inaccessible page
pub struct Guarded { base: *mut u8, len: usize }
impl Guarded {
    pub fn new(pages: usize) -> Guarded {
        unsafe {
            let p = mmap(core::ptr::null_mut(), (pages + 1) * PAGE, 3, 0x22, -1, 0);
            assert!(!p.is_null() && p as isize != -1, "mmap failed");
            assert_eq!(mprotect(p.add(pages * PAGE), PAGE, 0), 0);
            Guarded { base: p, len: pages * PAGE }
        }
    }
    /// a slice of n bytes ending `back` bytes before the guard page
    pub fn tail(&mut self, n: usize, back: usize) -> &mut [u8] {
        unsafe { core::slice::from_raw_parts_mut(self.base.add(self.len - back - n), n) }
    }
}
fn case(s: &str) { eprintln!("CASE {}", s); let _ = std::io::stderr().flush(); crate::case(); }
fn fill(b: &mut [u8], seed: u8) { for (i, x) in b.iter_mut().enumerate() { *x = (i as u8).wrapping_mul(37).wrapping_add(seed); } }

fn vec_io<M: Machine, V: StoreBytes + Copy>(g: &mut Guarded, mname: &str, vname: &str, n: usize) {
    // the reference result: offset 0 from a 64-byte aligned position far from the guard page
    let mut expect_le = vec![0u8; n];
    let mut expect_be = vec![0u8; n];
    for k in 0..=17usize {
        // k = 17: the slice ends exactly at the guard page; otherwise it starts k bytes after a 64-aligned address
        let back = if k == 17 { 0 } else { 1024 - k };
        case(&format!("{}::{} read_le/write_le/read_be/write_be on a {}-byte slice {}", mname, vname, n,
                      if k == 17 { "ending at a guard page".to_string() } else { format!("at offset {} from a 64-byte aligned address", k) }));
        let src = { let s = g.tail(n, back + 2048); fill(s, 7); s.as_ptr() };
        let src = unsafe { core::slice::from_raw_parts(src.add(0), n) };
        let v: V = unsafe { V::unsafe_read_le(src) };
        let w: V = unsafe { V::unsafe_read_be(src) };
        let out = g.tail(n, back);
        v.write_le(out);
        if out != src { report("align", vname, format!("{}: write_le(read_le(x)) != x at offset {}", mname, k)); return; }
        let le = out.to_vec();
        w.write_be(out);
        if out != src { report("align", vname, format!("{}: write_be(read_be(x)) != x at offset {}", mname, k)); return; }
        v.write_be(out);
        let be = out.to_vec();
        if k == 0 { expect_le = le; expect_be = be; }
        else if le != expect_le || be != expect_be { report("align", vname, format!("{}: result depends on the slice address (offset {})", mname, k)); return; }
    }
}
fn machine<M: Machine>(g: &mut Guarded, mname: &str)
where M::u64x2: StoreBytes, M::u128x1: StoreBytes, M::u64x2x2: StoreBytes, M::u128x2: StoreBytes, M::u64x2x4: StoreBytes, M::u128x4: StoreBytes, M::u64x4: StoreBytes {
    vec_io::<M, M::u32x4>(g, mname, "u32x4", 16);
    vec_io::<M, M::u64x2>(g, mname, "u64x2", 16);
    vec_io::<M, M::u128x1>(g, mname, "u128x1", 16);
    vec_io::<M, M::u32x4x2>(g, mname, "u32x4x2", 32);
    vec_io::<M, M::u64x2x2>(g, mname, "u64x2x2", 32);
    vec_io::<M, M::u64x4>(g, mname, "u64x4", 32);
    vec_io::<M, M::u128x2>(g, mname, "u128x2", 32);
    vec_io::<M, M::u32x4x4>(g, mname, "u32x4x4", 64);
    vec_io::<M, M::u64x2x4>(g, mname, "u64x2x4", 64);
    vec_io::<M, M::u128x4>(g, mname, "u128x4", 64);
}
fn hash<D: Digest>(g: &mut Guarded, name: &str) {
    let mut expect = Vec::new();
    for &n in &[0usize, 1, 63, 64, 65, 127, 128, 129, 300] {
        for k in 0..=17usize {
            let back = if k == 17 { 0 } else { 1024 - k };
            case(&format!("{} update of {} bytes {}", name, n, if k == 17 { "ending at a guard page".to_string() } else { format!("at offset {}", k) }));
            let s = g.tail(n, back);
            fill(s, 3);
            let mut d = D::new();
            d.update(&s[..n / 2]);
            d.update(&s[n / 2..]);
            let got = d.finalize().to_vec();
            if k == 0 { expect = got; } else if got != expect { report("align", name, format!("digest of {} bytes depends on the slice address (offset {})", n, k)); return; }
        }
    }
}
fn stream<C: NewCipher + StreamCipher>(g: &mut Guarded, name: &str, nl: usize) {
    let key = [0x42u8; 32];
    let nonce = [0x24u8; 24];
    let mut expect = Vec::new();
    for &n in &[1usize, 63, 64, 65, 255, 256, 257, 320, 600] {
        for k in 0..=17usize {
            let back = if k == 17 { 0 } else { 1024 - k };
            case(&format!("{} apply_keystream on {} bytes {}", name, n, if k == 17 { "ending at a guard page".to_string() } else { format!("at offset {}", k) }));
            let s = g.tail(n, back);
            fill(s, 9);
            let mut c = C::new(GenericArray::from_slice(&key), GenericArray::from_slice(&nonce[..nl]));
            c.apply_keystream(&mut s[..1]);
            c.apply_keystream(&mut s[1..]);
            if k == 0 { expect = s.to_vec(); } else if s != &expect[..] { report("align", name, format!("keystream output for {} bytes depends on the slice address (offset {})", n, k)); return; }
        }
    }
}
fn block<C: cipher::NewBlockCipher + BlockEncrypt + cipher::BlockDecrypt>(g: &mut Guarded, name: &str, n: usize) {
    let mut expect = Vec::new();
    for k in 0..=17usize {
        let back = if k == 17 { 0 } else { 1024 - k };
        case(&format!("{} encrypt_block/decrypt_block on a block {}", name, if k == 17 { "ending at a guard page".to_string() } else { format!("at offset {}", k) }));
        let keyv = { let ks = g.tail(n, back + 2048); fill(ks, 1); ks.to_vec() };
        let c = C::new(GenericArray::from_slice(&keyv));
        let s = g.tail(n, back);
        fill(s, 5);
        let orig = s.to_vec();
        c.encrypt_block(GenericArray::from_mut_slice(s));
        let ct = s.to_vec();
        c.decrypt_block(GenericArray::from_mut_slice(s));
        if s != &orig[..] { report("align", name, format!("decrypt(encrypt(b)) != b at offset {}", k)); return; }
        if k == 0 { expect = ct; } else if ct != expect { report("align", name, format!("ciphertext depends on the block address (offset {})", k)); return; }
    }
}
pub fn child() {
    let mut g = Guarded::new(2);
    unsafe {
        use ppv_lite86::x86_64::{AVX, AVX2, SSE2, SSE41, SSSE3};
        machine::<SSE2>(&mut g, "SSE2");
        if is_x86_feature_detected!("ssse3") { machine::<SSSE3>(&mut g, "SSSE3"); }
        if is_x86_feature_detected!("sse4.1") { machine::<SSE41>(&mut g, "SSE41"); }
        if is_x86_feature_detected!("avx") { machine::<AVX>(&mut g, "AVX"); }
        if is_x86_feature_detected!("avx2") { machine::<AVX2>(&mut g, "AVX2"); }
    }
    stream::<c2_chacha::ChaCha20>(&mut g, "ChaCha20", 8);
    stream::<c2_chacha::Ietf>(&mut g, "Ietf", 12);
    stream::<c2_chacha::XChaCha20>(&mut g, "XChaCha20", 24);
    stream::<c2_chacha::ChaCha8>(&mut g, "ChaCha8", 8);
    hash::<blake_hash::Blake224>(&mut g, "Blake224");
    hash::<blake_hash::Blake256>(&mut g, "Blake256");
    hash::<blake_hash::Blake384>(&mut g, "Blake384");
    hash::<blake_hash::Blake512>(&mut g, "Blake512");
    hash::<groestl_aesni::Groestl256>(&mut g, "Groestl256");
    hash::<groestl_aesni::Groestl512>(&mut g, "Groestl512");
    hash::<jh_x86_64::Jh256>(&mut g, "Jh256");
    hash::<jh_x86_64::Jh512>(&mut g, "Jh512");
    hash::<skein_hash::Skein256<digest::generic_array::typenum::U32>>(&mut g, "Skein256");
    hash::<skein_hash::Skein512<digest::generic_array::typenum::U64>>(&mut g, "Skein512");
    hash::<skein_hash::Skein1024<digest::generic_array::typenum::U128>>(&mut g, "Skein1024");
    block::<threefish_cipher::Threefish256>(&mut g, "Threefish256", 32);
    block::<threefish_cipher::Threefish512>(&mut g, "Threefish512", 64);
    block::<threefish_cipher::Threefish1024>(&mut g, "Threefish1024", 128);
}
pub fn run(_seed: u64, _iters: usize) {
    let exe = std::env::current_exe().unwrap();
    let out = std::process::Command::new(exe).arg("align-child").output().unwrap();
    let err = String::from_utf8_lossy(&out.stderr).to_string();
    let so = String::from_utf8_lossy(&out.stdout).to_string();
    for l in so.lines() { if l.starts_with("MISMATCH") { println!("{}", l); unsafe { crate::MISMATCHES += 1; } } }
    let cases = err.lines().filter(|l| l.starts_with("CASE ")).count();
    unsafe { crate::CASES += cases as u64; }
    if !out.status.success() && !so.contains("REFCHECK") {
        let last = err.lines().filter(|l| l.starts_with("CASE ")).last().unwrap_or("CASE (none)").to_string();
        report("align", "fatal", format!("the process died ({:?}) in: {}", out.status, &last[5..]));
    }
}
