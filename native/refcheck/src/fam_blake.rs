// BLAKE family: complete reference hash assembled from spec/blake_core.rs (compression, document
// formulation) and spec/blake.rs (IVs, padding and counter rules); one-shot, partitions, reuse, clone.
use crate::rng::Rng;
use crate::spec_blake as sb;
use crate::spec_blake_core as sc;
use crate::{hex, report};
use blake_hash::{Blake224, Blake256, Blake384, Blake512};
use digest::{Digest, FixedOutput, Reset, Update};

pub fn ref32(iv: [u32; 8], full: bool, outlen: usize, msg: &[u8]) -> Vec<u8> {
    let mut h = iv;
    let mut t: u128 = 0;
    let nfull = msg.len() / 64;
    let comp = |h: [u32; 8], blk: &[u8], c: u128| {
        let mut m = [0u32; 16];
        for i in 0..16 { m[i] = u32::from_be_bytes([blk[4 * i], blk[4 * i + 1], blk[4 * i + 2], blk[4 * i + 3]]); }
        sc::compress_std32(h, &m, (c as u32, (c >> 32) as u32))
    };
    for k in 0..nfull { t += 512; h = comp(h, &msg[64 * k..64 * k + 64], t); }
    let p = msg.len() - 64 * nfull;
    let mut pend = [0u8; 64];
    pend[..p].copy_from_slice(&msg[64 * nfull..]);
    let (n, blocks, ctr) = sb::final_blocks::<64>(&pend, p, t, full);
    for k in 0..n { h = comp(h, &blocks[k], ctr[k]); }
    let mut o = Vec::new();
    for w in h.iter() { o.extend_from_slice(&w.to_be_bytes()); }
    o.truncate(outlen);
    o
}
pub fn ref64(iv: [u64; 8], full: bool, outlen: usize, msg: &[u8]) -> Vec<u8> {
    let mut h = iv;
    let mut t: u128 = 0;
    let nfull = msg.len() / 128;
    let comp = |h: [u64; 8], blk: &[u8], c: u128| {
        let mut m = [0u64; 16];
        for i in 0..16 { let mut b = [0u8; 8]; b.copy_from_slice(&blk[8 * i..8 * i + 8]); m[i] = u64::from_be_bytes(b); }
        sc::compress_std64(h, &m, (c as u64, (c >> 64) as u64))
    };
    for k in 0..nfull { t += 1024; h = comp(h, &msg[128 * k..128 * k + 128], t); }
    let p = msg.len() - 128 * nfull;
    let mut pend = [0u8; 128];
    pend[..p].copy_from_slice(&msg[128 * nfull..]);
    let (n, blocks, ctr) = sb::final_blocks::<128>(&pend, p, t, full);
    for k in 0..n { h = comp(h, &blocks[k], ctr[k]); }
    let mut o = Vec::new();
    for w in h.iter() { o.extend_from_slice(&w.to_be_bytes()); }
    o.truncate(outlen);
    o
}

pub fn drive<D: Default + Update + FixedOutput + Reset + Clone>(fam: &str, name: &str, block: usize, reference: &dyn Fn(&[u8]) -> Vec<u8>, rng: &mut Rng, iters: usize) {
    // conformance: one-shot, every length up to 3 blocks + 1
    for len in 0..=(3 * block + 1) {
        let msg = rng.bytes(len);
        let mut d = D::default();
        d.update(&msg);
        let got = d.finalize_fixed().to_vec();
        crate::case();
        if got != reference(&msg) { report(fam, name, format!("one-shot digest differs from the specification for a {}-byte message {}", len, hex(&msg))); break; }
    }
    // partitions, clones, reuse after reset / finalize_fixed_reset / reset of a used hasher: compared with
    // the crate's own one-call digest (C08) and with the specification
    let mut reused = D::default();
    for it in 0..iters {
        let len = rng.below(4 * block + 2);
        let msg = rng.bytes(len);
        let parts = rng.partition(len, block);
        let spec = reference(&msg);
        let mut one = D::default();
        one.update(&msg);
        let exp = one.finalize_fixed().to_vec();
        crate::case();
        let mut d = D::default();
        let mut off = 0;
        let mut clone_at = if parts.is_empty() { 0 } else { rng.below(parts.len()) };
        let mut cl: Option<(D, usize)> = None;
        for (k, &c) in parts.iter().enumerate() {
            if k == clone_at { cl = Some((d.clone(), off)); clone_at = usize::MAX; }
            d.update(&msg[off..off + c]);
            off += c;
        }
        let got = d.finalize_fixed().to_vec();
        if got != exp { report(fam, name, format!("digest depends on the partition: len={} pieces={:?} differs from the one-call digest; msg={}", len, parts, hex(&msg))); return; }
        if got != spec { report(fam, name, format!("digest differs from the specification: len={} pieces={:?} msg={}", len, parts, hex(&msg))); return; }
        if let Some((mut c2, o2)) = cl {
            c2.update(&msg[o2..]);
            if c2.finalize_fixed().to_vec() != exp { report(fam, name, format!("a clone taken at offset {} diverges from the original: len={} pieces={:?} msg={}", o2, len, parts, hex(&msg))); return; }
        }
        // reuse
        let mode = it % 3;
        reused.update(&msg);
        let g = if mode == 0 { let g = reused.clone().finalize_fixed().to_vec(); reused.reset(); g } else { reused.finalize_fixed_reset().to_vec() };
        if g != exp { report(fam, name, format!("reused hasher ({}) gives a different digest than a new one for len={} msg={}", ["clone+finalize, reset", "finalize_fixed_reset", "finalize_fixed_reset, junk, reset"][mode], len, hex(&msg))); return; }
        if mode == 2 { let jn = rng.below(2 * block); let junk = rng.bytes(jn); reused.update(&junk); reused.reset(); }
    }
}
pub fn run(seed: u64, iters: usize) {
    let mut rng = Rng(seed.wrapping_mul(0x2545_f491_4f6c_dd1d) | 1);
    drive::<Blake224>("blake", "Blake224", 64, &|m| ref32(sb::IV224, false, 28, m), &mut rng, iters);
    drive::<Blake256>("blake", "Blake256", 64, &|m| ref32(sb::IV256, true, 32, m), &mut rng, iters);
    drive::<Blake384>("blake", "Blake384", 128, &|m| ref64(sb::IV384, false, 48, m), &mut rng, iters);
    drive::<Blake512>("blake", "Blake512", 128, &|m| ref64(sb::IV512, true, 64, m), &mut rng, iters);
}
