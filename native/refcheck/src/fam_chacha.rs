// ChaCha family: random seek / apply / current_pos histories against an abstract model (absolute
// position + reference keystream from spec/chacha.rs).
use crate::rng::Rng;
use crate::spec_chacha as spec;
use crate::{hex, report};
use c2_chacha::{ChaCha12, ChaCha20, ChaCha8, Ietf, XChaCha12, XChaCha20, XChaCha8};
use cipher::generic_array::GenericArray;
use cipher::{NewCipher, StreamCipher, StreamCipherSeek};

fn le32(b: &[u8], i: usize) -> u32 { u32::from_le_bytes([b[i], b[i + 1], b[i + 2], b[i + 3]]) }
fn kw(k: &[u8]) -> [u32; 8] { let mut w = [0u32; 8]; for i in 0..8 { w[i] = le32(k, 4 * i); } w }

struct Model { key: [u32; 8], tail: [u32; 4], ietf: bool, dr: u32, pos: u128, limit: u128 }
impl Model {
    fn ks(&self, p: u128) -> u8 {
        let ctr = (p / 64) as u64;
        let d = if self.ietf { [ctr as u32, self.tail[1], self.tail[2], self.tail[3]] } else { [ctr as u32, (ctr >> 32) as u32, self.tail[2], self.tail[3]] };
        spec::words_le(spec::block_words(self.key, d, self.dr))[(p % 64) as usize]
    }
}

fn one<C: NewCipher + StreamCipher + StreamCipherSeek>(name: &str, nl: usize, dr: u32, ietf: bool, x: bool, rng: &mut Rng, iters: usize) {
    let key = rng.bytes(32);
    let nonce = rng.bytes(nl);
    let mut c = C::new(GenericArray::from_slice(&key), GenericArray::from_slice(&nonce));
    let (mkey, tail) = if x {
        let n0 = [le32(&nonce, 0), le32(&nonce, 4), le32(&nonce, 8), le32(&nonce, 12)];
        (spec::hchacha(kw(&key), n0, dr), [0, 0, le32(&nonce, 16), le32(&nonce, 20)])
    } else if ietf { (kw(&key), [0, le32(&nonce, 0), le32(&nonce, 4), le32(&nonce, 8)]) } else { (kw(&key), [0, 0, le32(&nonce, 0), le32(&nonce, 4)]) };
    let limit: u128 = if ietf { 1 << 38 } else { 1 << 70 };
    let mut m = Model { key: mkey, tail, ietf, dr, pos: 0, limit };
    let bases: [u128; 5] = [0, 1 << 38, (1u128 << 32) * 64, 1 << 20, u64::MAX as u128 + 1];
    let offs: [i64; 14] = [0, 1, 10, 63, 64, 65, 127, 128, 200, 256, 257, 320, 512, 600];
    let lens: [usize; 16] = [0, 1, 2, 10, 11, 63, 64, 65, 100, 128, 255, 256, 257, 266, 320, 522];
    let mut script = String::new();
    for _ in 0..iters {
        crate::case();
        match rng.below(10) {
            0..=3 => {
                let b = rng.pick(&bases);
                let o = rng.pick(&offs) as i128 * if rng.below(2) == 0 { -1 } else { 1 };
                let p = b as i128 + o;
                if p < 0 || p > u64::MAX as i128 { continue; }
                let p = p as u64;
                let r = c.try_seek(p);
                script += &format!("seek({});", p);
                let ok = (p as u128) <= limit;
                if r.is_ok() != ok { report("chacha", name, format!("seek({}) returned {:?}, expected ok={} script={}", p, r.is_ok(), ok, script)); return; }
                if ok { m.pos = p as u128; }
            }
            4..=8 => {
                let n = rng.pick(&lens);
                let data = rng.bytes(n);
                let mut buf = data.clone();
                let r = c.try_apply_keystream(&mut buf);
                script += &format!("apply({});", n);
                let fits = m.pos + n as u128 <= m.limit;
                if r.is_ok() != fits { report("chacha", name, format!("apply({}) at {} returned ok={}, expected {} script={}", n, m.pos, r.is_ok(), fits, script)); return; }
                if fits {
                    for i in 0..n {
                        if buf[i] != data[i] ^ m.ks(m.pos + i as u128) { report("chacha", name, format!("wrong keystream byte at absolute position {} key={} nonce={} script={}", m.pos + i as u128, hex(&key), hex(&nonce), script)); return; }
                    }
                    m.pos += n as u128;
                } else if buf != data { report("chacha", name, format!("failed apply modified the data; script={}", script)); return; }
            }
            _ => {
                script += "current_pos;";
                let r: Result<u128, _> = c.try_current_pos();
                match r { Ok(v) if v == m.pos => {}, other => { report("chacha", name, format!("current_pos = {:?}, expected {} script={}", other.ok(), m.pos, script)); return; } }
            }
        }
        if script.len() > 4000 { script.clear(); }
    }
}
pub fn run(seed: u64, iters: usize) {
    let mut rng = Rng(seed.wrapping_mul(0x9e37_79b9_7f4a_7c15) | 1);
    for _ in 0..6 {
        one::<ChaCha20>("ChaCha20", 8, 10, false, false, &mut rng, iters);
        one::<ChaCha12>("ChaCha12", 8, 6, false, false, &mut rng, iters / 3);
        one::<ChaCha8>("ChaCha8", 8, 4, false, false, &mut rng, iters / 3);
        one::<Ietf>("Ietf", 12, 10, true, false, &mut rng, iters);
        one::<XChaCha20>("XChaCha20", 24, 10, false, true, &mut rng, iters / 2);
        one::<XChaCha12>("XChaCha12", 24, 6, false, true, &mut rng, iters / 3);
        one::<XChaCha8>("XChaCha8", 24, 4, false, true, &mut rng, iters / 3);
    }
}
