#!/usr/bin/env python3
"""Imports a confirmed seeded change from /tmp/mut_<id> into /verif/seeded/<id>/ (patch.diff, the
demonstration without build output, the author's README as NOTES.md, meta.json)."""
import json, os, re, shutil, sys
SRC = "/tmp"
DST = "/verif/seeded"
META = {
 "C01": ("C01", "nonce-word restore condition `== 12` -> `!= 8`: XChaCha high counter word reset after each call", "XChaCha8/12/20; a stream read (not seeked) across 2^38 bytes; a later call without seek"),
 "C02": ("C02", "early return `?` skips the IETF nonce-word restore when the inner call fails", "Ietf; seek strictly inside the last block; a failed apply; continued use"),
 "C11": ("C11", "same idea as C02 found independently: failed request generates the last block lazily and leaves the nonce word incremented", "Ietf; unaligned seek into the last block; overrunning request; further use"),
 "C04": ("C04", "`extra_block` decision `pos + footer > B` -> `pos >= B - footer`: exact-fit messages get two final blocks", "message length = 55 mod 64 (BLAKE-224/256) or 111 mod 128 (BLAKE-384/512)"),
 "C05": ("C05", "output copy-out rewritten with chunks_exact_mut(8): trailing N mod 8 bytes never written", "output length N not a multiple of 8"),
 "C07": ("C07", "reset() returns early when block_counter == 0 and buffer empty, but finalize leaves that state dirty", "hasher reused via finalize_fixed_reset after a first message shorter than one block"),
 "C08": ("C08", "BLAKE update uses input_blocks and advances the bit counter once per batch", "one update call carrying two or more whole blocks"),
 "C09": ("C09", "key schedule adds the subkey index with saturating_add instead of wrapping_add", "a key word within 20 of 2^64 at the last subkey position (e.g. all-ones key)"),
 "C12": ("C12", "SSE2-only u32x4 rotate_each_word_right24 rotates by 8", "SSE2-only machine (no SSSE3)"),
 "C13": ("C13", "SSE2-only u128x1 bswap: word shuffle immediate swaps 64-bit halves only", "SSE2-only machine; u128x1 read_be/write_be"),
 "C14": ("C14", "d0123 rewritten with a scalar carry chain; lanes 2,3 forget the carry", "low counter word exactly 0xffffffff at refill4"),
 "C17": ("C17", "BLAKE increase_count: `t.1 += 1` -> `t.1 = carry`", "message of 2^32 bits or more (2^64 bits for BLAKE-384/512)"),
 "C03": ("C03", "soft.rs x4 `op=` assign loops over lanes 0..3 (exclusive): lane 3 never updated", "ChaCha wide path on any backend except AVX2"),
 "C06": ("C06", "JH datalen narrowed to u32", "message of 2^32 bytes or more"),
 "C10": ("C10", "no_unroll unroll8_rev!: `(0..8).rev()` -> `(0..7).rev()`", "feature no_unroll"),
 "C15": ("C15", "stream32_eq compares self_d[1] with itself", "streams differing only in state word 13 (nonce word 0 / high counter half)"),
 "C16": ("C16", "StoreBytes::write_le uses the aligned store _mm_store_si128", "output slice not 16-byte aligned, non-AVX2 128-bit stores"),
 "C19": ("C19", "ppv-null vec4 Add uses checked `+` instead of wrapping_add", "debug build, a lane sum that overflows"),
 "C02b": ("C02", "Buffer::try_apply_keystream: early return / stale `have` when the request drains the buffer and then a multiple of 256 bytes", "have in 1..=63 and request length have + 256k, then another apply or current_pos"),
 "C08b": ("C08", "Skein update flushes a full lazy buffer as a non-final block before input_lazy", "total length a non-zero multiple of the block size followed by an empty update"),
 "C13b": ("C13", "SSE2/SSSE3-only u64x2 insert lane 0: clear mask `_mm_cvtsi64_si128(-1)` -> `_mm_cvtsi32_si128(-1)` keeps the old upper 32 bits", "non-SSE4.1 backend; u64x2.insert(_,0) / u64x4.insert(_,0|2) where the old lane has upper-32 bits the new value lacks"),
 "C17b": ("C17", "BLAKE finalize, padding-only last block: `t = (0, 0)` -> `t.0 = 0` lets the high counter word enter the final compression", "message of 2^32 bits or more (BLAKE-224/256; 2^64 for 384/512) whose length is 0 or 56..=63 mod 64 (padding-only final block)"),
 "C02c": ("C02", "seek64: `buf.fresh = blockct == 0` -> `ct == 0`: a mid-block seek inside block 0 is no longer `fresh`, so the remaining length reads as 0 instead of 2^64 blocks", "64-bit-counter cipher; seek to byte 1..63; then current_pos (Err / 2^70+p) before the next apply"),
 "C05b": ("C05", "counter-mode output: counter block hoisted out of the loop and only `b[0] = i as u8` refreshed, so the 64-bit output-block counter is reduced mod 256", "output size N of more than 256 output blocks (N > 8192 bytes for Skein-256, 16384 for Skein-512, 32768 for Skein-1024)"),
 "C14b": ("C14", "refill4 derives the state left behind from lane 3 + 1 on the low word only (carry dropped)", "low counter word exactly 0xfffffffc at refill4"),
}
confirm = {}
for ln in open("/tmp/confirm.summary"):
    m = re.match(r"(\w+) suite_exit=(\d+) demo_with_change_exit=(\d+) demo_without_change_exit=(\d+) cmd='(.*)'", ln)
    if m:
        confirm[m.group(1)] = dict(suite_exit_with_change=int(m.group(2)), demo_exit_with_change=int(m.group(3)),
                                   demo_exit_without_change=int(m.group(4)), demo_cmd="cd demo && " + m.group(5))
def ignore(d, names):
    return [n for n in names if n in ("target", ".p.diff") or n.endswith(".log") and "target" in n]
for mid in sys.argv[1:] or sorted(META):
    src = os.path.join(SRC, "mut_" + mid)
    dst = os.path.join(DST, mid)
    if not os.path.exists(os.path.join(src, "patch.diff")) or mid not in confirm:
        print("skip", mid); continue
    shutil.rmtree(dst, ignore_errors=True)
    os.makedirs(dst)
    # the patch as it applies to /repo's HEAD: regenerate from the worktree
    os.system("git -C /tmp/wt_%s diff > %s/patch.diff" % (mid, dst))
    if os.path.isdir(os.path.join(src, "demo")):
        shutil.copytree(os.path.join(src, "demo"), os.path.join(dst, "demo"), ignore=ignore)
        os.system("find %s/demo -name target -type d -prune -exec rm -rf {} + 2>/dev/null; find %s/demo -name 'target-*' -prune -exec rm -rf {} + 2>/dev/null" % (dst, dst))
    if os.path.exists(os.path.join(src, "README.md")):
        shutil.copy(os.path.join(src, "README.md"), os.path.join(dst, "NOTES.md"))
    prop, what, needs = META[mid]
    c = confirm[mid]
    ok = c["suite_exit_with_change"] == 0 and c["demo_exit_with_change"] != 0 and c["demo_exit_without_change"] == 0
    meta = dict(id=mid, property=prop, change=what, needs_to_manifest=needs, author="independent sub-agent given only the property text and a scratch worktree",
                base_commit=os.popen("git -C /repo rev-parse HEAD").read().strip(),
                confirmed=dict(compiles_and_suite_passes_with_change=(c["suite_exit_with_change"] == 0), demo_fails_with_change=(c["demo_exit_with_change"] != 0),
                               demo_passes_without_change=(c["demo_exit_without_change"] == 0), all_confirmed=ok,
                               commands=["cd <worktree with patch applied> && cargo test --workspace --offline   # exit %d" % c["suite_exit_with_change"],
                                         "%s   # with change: exit %d, without: exit %d (demo path-depends on the worktree)" % (c["demo_cmd"], c["demo_exit_with_change"], c["demo_exit_without_change"])]),
                detection={})
    json.dump(meta, open(os.path.join(dst, "meta.json"), "w"), indent=1)
    print("imported", mid, ok)
