#!/bin/sh
# tools/try_mutant.sh <worktree-with-change> <out-dir> <property>...   runs the checks against a mutated copy
# of the repository (never against /repo itself), writing evidence/replays under <out-dir>.
WT=$1; OUT=$2; shift 2
mkdir -p $OUT
for p in "$@"; do
  VERIF_REPO=$WT VERIF_OUT=$OUT VERIF_PLAYBACK_CAP=2 /verif/check $p > $OUT/$p.log 2>&1
  echo "$p exit=$? $(grep -c '^VIOLATION' $OUT/$p.log) violation line(s); $(tail -n 1 $OUT/$p.log | cut -c1-120)"
  grep '^VIOLATION' $OUT/$p.log | head -3
done
