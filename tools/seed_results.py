#!/usr/bin/env python3
"""Fills seeded/<id>/meta.json 'detection' from the try_mutant runs under /tmp/mutrun_<id>/ and prints
the table for DESIGN.md 11.7."""
import json, os, re, glob
rows = []
for d in sorted(glob.glob("/verif/seeded/*")):
    mid = os.path.basename(d)
    meta = json.load(open(os.path.join(d, "meta.json")))
    det = {}
    for log in sorted(glob.glob("/tmp/mutrun_%s/C*.log" % mid)):
        prop = os.path.basename(log)[:-4]
        txt = open(log).read()
        m = re.search(r"\[%s\] obligations=(\d+) discharged=(\d+) known=(\d+) violations=(\d+) undecided=(\d+)" % prop, txt)
        if not m:
            continue
        vl = re.findall(r"^VIOLATION property=\S+ replay=(\S+)( no-failing-input-found)?", txt, re.M)
        obl = [os.path.basename(p)[len(prop) + 1:-5] for p, _ in vl]
        det[prop] = dict(check="./check %s --tier quick (VERIF_REPO=<mutated worktree>)" % prop, obligations=int(m.group(1)), violations=int(m.group(4)), undecided=int(m.group(5)),
                         caught=int(m.group(4)) > 0, failed_obligations=obl[:8], native_replay_reproduced=sum(1 for _, s in vl if not s))
    meta["detection"] = det
    json.dump(meta, open(os.path.join(d, "meta.json"), "w"), indent=1)
    for prop, r in det.items():
        rows.append((mid, meta["property"], prop, "caught" if r["caught"] else ("undecided" if r["undecided"] else "MISSED"), r["violations"], (r["failed_obligations"] or [""])[0][:70]))
for r in rows:
    print("| %s | %s | %s | %s | %d | %s |" % r)
