#!/usr/bin/env python3
"""Fills seeded/<id>/meta.json 'detection' from the try_mutant runs under /tmp/mutrun_<id>/ and rewrites
the table of DESIGN.md 11.7 (between the header row and the first blank line after it, or the @@TABLE@@ marker)."""
import json, os, re, glob
rows = []
for d in sorted(glob.glob("/verif/seeded/*")):
    mid = os.path.basename(d)
    meta = json.load(open(os.path.join(d, "meta.json")))
    det = dict(meta.get("detection") or {})
    for log in sorted(glob.glob("/tmp/mutrun_%s/C*.log" % mid)):
        prop = os.path.basename(log)[:-4]
        txt = open(log).read()
        m = re.search(r"\[%s\] obligations=(\d+) discharged=(\d+) known=(\d+) violations=(\d+) undecided=(\d+)" % prop, txt)
        if not m:
            continue
        vl = re.findall(r"^VIOLATION property=\S+ replay=(\S+)( no-failing-input-found)?", txt, re.M)
        obl = [os.path.basename(p)[len(prop) + 1:-5] for p, _ in vl]
        native = "native search" if "failing input (native search" in txt else ("native replay of the counterexample" if any(not s for _, s in vl) else "none")
        det[prop] = dict(check="./check %s --tier quick (VERIF_REPO=<mutated worktree>)" % prop, obligations=int(m.group(1)), violations=int(m.group(4)), undecided=int(m.group(5)),
                         caught=int(m.group(4)) > 0, failed_obligations=obl[:8], with_failing_input=sum(1 for _, s in vl if not s), failing_input_from=native)
    meta["detection"] = det
    json.dump(meta, open(os.path.join(d, "meta.json"), "w"), indent=1)
    for prop, r in sorted(det.items()):
        res = ("caught (%d)" % r["violations"]) if r["caught"] else ("undecided" if r["undecided"] else "MISSED")
        rows.append("| %s | %s | `./check %s` | %s | `%s` | %s |" % (mid, meta["change"][:110].replace("|", "/"), prop, res, (r["failed_obligations"] or ["-"])[0][:80], r.get("failing_input_from", "-") if r["caught"] else "-"))
table = "\n".join(rows)
p = "/verif/DESIGN.md"
s = open(p).read()
if "@@TABLE@@" in s:
    s = s.replace("@@TABLE@@", "<!-- table:begin -->\n" + table + "\n<!-- table:end -->")
else:
    s = re.sub(r"<!-- table:begin -->.*?<!-- table:end -->", lambda m: "<!-- table:begin -->\n" + table + "\n<!-- table:end -->", s, flags=re.S)
open(p, "w").write(s)
print(table)
