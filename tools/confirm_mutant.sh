#!/bin/sh
# tools/confirm_mutant.sh <worktree> <id>   re-confirms a sub-agent's change myself: the suite passes with it,
# its demonstration (DEMO/run.sh) fails with it and passes without it.  Appends one line to /tmp/confirm.summary
# and collects patch.diff / demo / README.md under /tmp/mut_<id> for tools/seed_import.py.
WT=$1; ID=$2
M=/tmp/mut_$ID
rm -rf $M; mkdir -p $M
cd $WT || exit 2
git diff > $M/patch.diff
[ -s $M/patch.diff ] || { echo "$ID: empty patch"; exit 2; }
cp -r DEMO $M/demo; rm -f $M/demo/patch.diff
[ -f DEMO/NOTES.md ] && cp DEMO/NOTES.md $M/README.md
cargo test --workspace --no-fail-fast --offline > $M/suite.log 2>&1; S=$?
sh DEMO/run.sh > $M/demo_with.log 2>&1; W=$?
git apply -R $M/patch.diff || { echo "$ID: cannot reverse"; exit 2; }
sh DEMO/run.sh > $M/demo_without.log 2>&1; O=$?
git apply $M/patch.diff
echo "$ID suite_exit=$S demo_with_change_exit=$W demo_without_change_exit=$O cmd='sh run.sh'" | tee -a /tmp/confirm.summary
