#!/usr/bin/env python3
"""tools/mkindex.py [unit ...]: regenerates kani/index/<unit>.txt, the list of harness names of each harness
crate (one full `cargo kani --only-codegen` per unit).  The quick tier uses the list to generate code for
exactly the harnesses it runs.  The names depend only on /verif (harness crates), not on /repo's code; a harness
that is listed but no longer generated is reported as a lost anchor by ./check, a harness that is generated but not
listed is reported as 'index stale' in the thorough tier.  Rerun after adding or renaming harnesses."""
import os, sys
HERE = os.path.dirname(os.path.abspath(__file__))
sys.path.insert(0, os.path.join(os.path.dirname(HERE), "lib"))
from common import *
import kanirun, units as U

def main():
    names = sys.argv[1:] or ["hashes", "hashes_generic", "chacha_x86", "chacha_generic", "threefish", "threefish_no_unroll"]
    os.makedirs(os.path.join(VERIF, "kani", "index"), exist_ok=True)
    for un in names:
        unit = U.UNITS[un]
        with Scratch("index-" + un) as sd:
            crate_dir = os.path.join(sd, "crate")
            kanirun.instantiate(os.path.join(VERIF, unit["template"]), crate_dir, {"@REPO@": REPO, "@VERIF@": VERIF})
            ok, out, hs, cmd = kanirun.codegen(crate_dir, unit["zflags"], unit.get("cargo_args", []), unit.get("rustflags"), timeout=7200)
            if not ok:
                print(out[-3000:]); print("FAILED", un); return 1
            ns = sorted(h["pretty_name"] for h in hs)
            open(os.path.join(VERIF, "kani", "index", un + ".txt"), "w").write("\n".join(ns) + "\n")
            print(un, len(ns), "harnesses")
    return 0
if __name__ == "__main__":
    sys.exit(main())
