// Harness crate for ppv-null (C19): every public method of u32x4, u64x4, u128x1, u128x2, u32x4x4
// against plain wrapping scalar arithmetic, for all operands, with overflow checks on (debug-profile
// semantics), so "never panics in any build profile" is part of every obligation.
// Preconditions are exactly those of the property statement: rotation amounts 1..bits-1, valid lane
// indices, slices of the vector's length.
#![recursion_limit = "1024"]
#![allow(non_camel_case_types, unused_imports, dead_code, clippy::all)]
#[path = "../common/nd.rs"]
#[macro_use]
pub mod nd;
use crypto_simd::*;
use nd::any;
use ppv_null::*;

#[cfg(kani)]
macro_rules! harness { ($name:ident, $body:expr) => { #[kani::proof] pub fn $name() { $body } }; }
#[cfg(not(kani))]
macro_rules! harness { ($name:ident, $body:expr) => { pub fn $name() { $body } }; }

macro_rules! vec4_harness {
    ($name:ident, $V:ident, $w:ident, $bits:expr) => {
        pub mod $name {
            use super::*;
            fn get(v: $V) -> [$w; 4] {
                let mut o = [0 as $w; 4];
                v.write_to_slice_unaligned(&mut o);
                o
            }
            harness!(c19_construct, {
                let a: [$w; 4] = any();
                let sel: u8 = any();
                match sel {
                    0 => obl!(get($V::new(a[0], a[1], a[2], a[3])) == a, "new_write_to_slice"),
                    1 => obl!(get($V::from_slice_unaligned(&a)) == a, "from_slice_unaligned"),
                    2 => { let x: $w = any(); obl!(get($V::splat(x)) == [x; 4], "splat"); }
                    3 => { let i: usize = any(); nd::assume(i < 4); obl!($V::new(a[0], a[1], a[2], a[3]).extract(i) == a[i], "extract"); }
                    4 => {
                        let i: usize = any(); nd::assume(i < 4);
                        let x: $w = any();
                        let mut e = a; e[i] = x;
                        obl!(get($V::new(a[0], a[1], a[2], a[3]).replace(i, x)) == e, "replace");
                    }
                    _ => {}
                }
            });
            harness!(c19_arith, {
                let a: [$w; 4] = any();
                let b: [$w; 4] = any();
                let (va, vb) = ($V::new(a[0], a[1], a[2], a[3]), $V::new(b[0], b[1], b[2], b[3]));
                let sel: u8 = any();
                let f = |g: fn($w, $w) -> $w| [g(a[0], b[0]), g(a[1], b[1]), g(a[2], b[2]), g(a[3], b[3])];
                match sel {
                    0 => obl!(get(va + vb) == f(|x, y| x.wrapping_add(y)), "add"),
                    1 => { let mut t = va; t += vb; obl!(get(t) == f(|x, y| x.wrapping_add(y)), "add_assign"); }
                    2 => obl!(get(va ^ vb) == f(|x, y| x ^ y), "xor"),
                    3 => { let mut t = va; t ^= vb; obl!(get(t) == f(|x, y| x ^ y), "xor_assign"); }
                    4 => obl!(get(va | vb) == f(|x, y| x | y), "or"),
                    5 => obl!(get(va & vb) == f(|x, y| x & y), "and"),
                    _ => {}
                }
            });
            harness!(c19_rotate, {
                let a: [$w; 4] = any();
                let va = $V::new(a[0], a[1], a[2], a[3]);
                let sel: u8 = any();
                match sel {
                    0 => {
                        let r: [$w; 4] = any();
                        nd::assume(r[0] >= 1 && r[0] < $bits && r[1] >= 1 && r[1] < $bits && r[2] >= 1 && r[2] < $bits && r[3] >= 1 && r[3] < $bits);
                        let mut t = va;
                        let o = t.rotate_right($V::new(r[0], r[1], r[2], r[3]));
                        obl!(get(o) == [a[0].rotate_right(r[0] as u32), a[1].rotate_right(r[1] as u32), a[2].rotate_right(r[2] as u32), a[3].rotate_right(r[3] as u32)], "rotate_right");
                    }
                    1 => {
                        let i: u32 = any(); nd::assume(i >= 1 && i < $bits);
                        obl!(get(va.splat_rotate_right(i)) == [a[0].rotate_right(i), a[1].rotate_right(i), a[2].rotate_right(i), a[3].rotate_right(i)], "splat_rotate_right");
                    }
                    2 => {
                        let i: u32 = any(); nd::assume(i < 4);
                        // word j moves to position (j + i) mod 4
                        let mut e = a;
                        let mut j = 0;
                        while j < 4 { e[(j + i as usize) % 4] = a[j]; j += 1; }
                        obl!(get(va.rotate_words_right(i)) == e, "rotate_words_right");
                    }
                    _ => {}
                }
            });
        }
    };
}
vec4_harness!(u32x4_, u32x4, u32, 32);
vec4_harness!(u64x4_, u64x4, u64, 64);

pub mod u128x1_ {
    use super::*;
    fn swapn(x: u128, n: u32) -> u128 {
        let mut m = 0u128;
        let mut i = 0;
        while i < 128 { m |= (if n >= 128 { !0 } else { (1u128 << n) - 1 }) << i; i += 2 * n; }
        ((x & m) << n) | ((x >> n) & m)
    }
    harness!(c19_construct, {
        let a: u128 = any();
        let sel: u8 = any();
        match sel {
            0 => obl!(u128x1::new(a).into_inner() == a, "new_into_inner"),
            1 => obl!(u128x1::load(&[a]).into_inner() == a, "load"),
            2 => obl!(u128x1::new(a).extract(0) == a, "extract"),
            3 => { let x: u128 = any(); let mut o = [x]; u128x1::new(a).xor_store(&mut o); obl!(o[0] == x ^ a, "xor_store"); }
            _ => {}
        }
    });
    harness!(c19_arith, {
        let a: u128 = any();
        let b: u128 = any();
        let (va, vb) = (u128x1::new(a), u128x1::new(b));
        let sel: u8 = any();
        match sel {
            0 => { let mut t = va; t += vb; obl!(t.into_inner() == a.wrapping_add(b), "add_assign"); }
            1 => obl!((va ^ vb).into_inner() == a ^ b, "xor"),
            2 => { let mut t = va; t ^= vb; obl!(t.into_inner() == a ^ b, "xor_assign"); }
            3 => obl!((va & vb).into_inner() == a & b, "and"),
            4 => obl!((!va).into_inner() == !a, "not"),
            5 => obl!(va.andnot(vb).into_inner() == !a & b, "andnot"),
            _ => {}
        }
    });
    harness!(c19_rotate_swap, {
        let a: u128 = any();
        let va = u128x1::new(a);
        let sel: u8 = any();
        match sel {
            0 => { let i: u128 = any(); nd::assume(i >= 1 && i < 128); let mut t = va; t.rotate_right(i); obl!(t.into_inner() == a.rotate_right(i as u32), "rotate_right"); }
            1 => obl!(va.swap1().into_inner() == swapn(a, 1), "swap1"),
            2 => obl!(va.swap2().into_inner() == swapn(a, 2), "swap2"),
            3 => obl!(va.swap4().into_inner() == swapn(a, 4), "swap4"),
            4 => obl!(va.swap8().into_inner() == swapn(a, 8), "swap8"),
            5 => obl!(va.swap16().into_inner() == swapn(a, 16), "swap16"),
            6 => obl!(va.swap32().into_inner() == swapn(a, 32), "swap32"),
            7 => obl!(va.swap64().into_inner() == swapn(a, 64), "swap64"),
            _ => {}
        }
    });
}

pub mod u128x2_ {
    use super::*;
    fn get(v: u128x2) -> [u128; 2] { [v.extract(0), v.extract(1)] }
    harness!(c19_construct, {
        let a: [u128; 2] = any();
        let sel: u8 = any();
        match sel {
            0 => { let i: u32 = any(); nd::assume(i < 2); obl!(u128x2::new(a[0], a[1]).extract(i) == a[i as usize], "new_extract"); }
            1 => obl!(get(u128x2::load(&a)) == a, "load"),
            2 => { let x: [u128; 2] = any(); let mut o = x; u128x2::new(a[0], a[1]).xor_store(&mut o); obl!(o == [x[0] ^ a[0], x[1] ^ a[1]], "xor_store"); }
            _ => {}
        }
    });
    harness!(c19_arith, {
        let a: [u128; 2] = any();
        let b: [u128; 2] = any();
        let (va, vb) = (u128x2::new(a[0], a[1]), u128x2::new(b[0], b[1]));
        let sel: u8 = any();
        match sel {
            0 => { let mut t = va; t += vb; obl!(get(t) == [a[0].wrapping_add(b[0]), a[1].wrapping_add(b[1])], "add_assign"); }
            1 => { let mut t = va; t ^= vb; obl!(get(t) == [a[0] ^ b[0], a[1] ^ b[1]], "xor_assign"); }
            2 => obl!(get(va & vb) == [a[0] & b[0], a[1] & b[1]], "and"),
            3 => obl!(get(va | vb) == [a[0] | b[0], a[1] | b[1]], "or"),
            4 => obl!(get(!va) == [!a[0], !a[1]], "not"),
            5 => obl!(get(va.andnot(vb)) == [!a[0] & b[0], !a[1] & b[1]], "andnot"),
            6 => { let i: u128 = any(); nd::assume(i >= 1 && i < 128); let mut t = va; t.rotate_right(i); obl!(get(t) == [a[0].rotate_right(i as u32), a[1].rotate_right(i as u32)], "rotate_right"); }
            _ => {}
        }
    });
}

pub mod u32x4x4_ {
    use super::*;
    type A = [[u32; 4]; 4];
    fn mk(a: A) -> u32x4x4 {
        u32x4x4::from((u32x4::new(a[0][0], a[0][1], a[0][2], a[0][3]), u32x4::new(a[1][0], a[1][1], a[1][2], a[1][3]),
                       u32x4::new(a[2][0], a[2][1], a[2][2], a[2][3]), u32x4::new(a[3][0], a[3][1], a[3][2], a[3][3])))
    }
    fn g1(v: u32x4) -> [u32; 4] { let mut o = [0u32; 4]; v.write_to_slice_unaligned(&mut o); o }
    fn get(v: u32x4x4) -> A { let (a, b, c, d) = v.into_parts(); [g1(a), g1(b), g1(c), g1(d)] }
    fn zip(a: A, b: A, f: fn(u32, u32) -> u32) -> A {
        let mut r = [[0u32; 4]; 4];
        let mut i = 0;
        while i < 4 { let mut j = 0; while j < 4 { r[i][j] = f(a[i][j], b[i][j]); j += 1; } i += 1; }
        r
    }
    harness!(c19_construct, {
        let a: A = any();
        let sel: u8 = any();
        match sel {
            0 => obl!(get(mk(a)) == a, "from_into_parts"),
            1 => obl!(get(u32x4x4::splat(u32x4::new(a[0][0], a[0][1], a[0][2], a[0][3]))) == [a[0]; 4], "splat"),
            _ => {}
        }
    });
    harness!(c19_arith, {
        let a: A = any();
        let b: A = any();
        let (va, vb) = (mk(a), mk(b));
        let sel: u8 = any();
        match sel {
            0 => obl!(get(va + vb) == zip(a, b, |x, y| x.wrapping_add(y)), "add"),
            1 => { let mut t = va; t += vb; obl!(get(t) == zip(a, b, |x, y| x.wrapping_add(y)), "add_assign"); }
            2 => obl!(get(va ^ vb) == zip(a, b, |x, y| x ^ y), "xor"),
            3 => { let mut t = va; t ^= vb; obl!(get(t) == zip(a, b, |x, y| x ^ y), "xor_assign"); }
            4 => obl!(get(va | vb) == zip(a, b, |x, y| x | y), "or"),
            5 => obl!(get(va & vb) == zip(a, b, |x, y| x & y), "and"),
            _ => {}
        }
    });
    harness!(c19_rotate, {
        let a: A = any();
        let va = mk(a);
        let sel: u8 = any();
        match sel {
            0 => {
                let i: u32 = any(); nd::assume(i >= 1 && i < 32);
                let mut e = a;
                let mut l = 0;
                while l < 4 { let mut j = 0; while j < 4 { e[l][j] = a[l][j].rotate_right(i); j += 1; } l += 1; }
                obl!(get(va.splat_rotate_right(i)) == e, "splat_rotate_right");
            }
            1 => {
                let i: u32 = any(); nd::assume(i < 4);
                let mut e = a;
                let mut l = 0;
                while l < 4 { let mut j = 0; while j < 4 { e[l][(j + i as usize) % 4] = a[l][j]; j += 1; } l += 1; }
                obl!(get(va.rotate_words_right(i)) == e, "rotate_words_right");
            }
            _ => {}
        }
    });
}
