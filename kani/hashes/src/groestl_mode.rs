// Groestl mode of operation (C07 obligation 1, C08, C17): update / finalize / default / reset / clone
// from an ARBITRARY state (symbolic chaining value, symbolic 64-bit block counter, p pending bytes),
// with the compression entry points init/tf/of replaced by contract stubs (uninterpreted functions +
// call log).  Expected calls follow the Groestl specification (v2011-03-02): section 3.4 padding
// (0x80, zeros, 64-bit big-endian count of blocks INCLUDING the padding blocks), 3.3 initial value
// (output size in bits as big-endian integer in the last bytes), 3.5 output = last n bits.
use crate::nd::{self, any};
use digest::generic_array::GenericArray;
use digest::{FixedOutputDirty, Reset, Update};
use groestl_aesni::verif_incrate as ic;
use groestl_aesni::verif_incrate::rec;
use groestl_aesni::{Groestl224, Groestl256, Groestl384, Groestl512};

pub trait GrTy: Default + Clone + Update + FixedOutputDirty + Reset {
    const B: usize;
    const OUT: usize;
    fn counter(&mut self) -> u64;
    fn set_counter(&mut self, c: u64);
    fn cv(&mut self) -> [u8; 128];
    fn set_cv(&mut self, cv: &[u8; 128]);
    fn pos(&mut self) -> usize;
}
impl GrTy for Groestl256 {
    const B: usize = 64; const OUT: usize = 32;
    fn counter(&mut self) -> u64 { ic::g256(self).0 as u64 }
    fn set_counter(&mut self, c: u64) { ic::g256_set_counter(self, c as u128) }
    fn cv(&mut self) -> [u8; 128] { ic::g256(self).1 }
    fn set_cv(&mut self, cv: &[u8; 128]) { ic::g256_set_cv(self, cv) }
    fn pos(&mut self) -> usize { ic::g256(self).2 }
}
impl GrTy for Groestl224 {
    const B: usize = 64; const OUT: usize = 28;
    fn counter(&mut self) -> u64 { ic::g256(ic::g224(self)).0 as u64 }
    fn set_counter(&mut self, c: u64) { ic::g256_set_counter(ic::g224(self), c as u128) }
    fn cv(&mut self) -> [u8; 128] { ic::g256(ic::g224(self)).1 }
    fn set_cv(&mut self, cv: &[u8; 128]) { ic::g256_set_cv(ic::g224(self), cv) }
    fn pos(&mut self) -> usize { ic::g256(ic::g224(self)).2 }
}
impl GrTy for Groestl512 {
    const B: usize = 128; const OUT: usize = 64;
    fn counter(&mut self) -> u64 { ic::g512(self).0 as u64 }
    fn set_counter(&mut self, c: u64) { ic::g512_set_counter(self, c as u128) }
    fn cv(&mut self) -> [u8; 128] { ic::g512(self).1 }
    fn set_cv(&mut self, cv: &[u8; 128]) { ic::g512_set_cv(self, cv) }
    fn pos(&mut self) -> usize { ic::g512(self).2 }
}
impl GrTy for Groestl384 {
    const B: usize = 128; const OUT: usize = 48;
    fn counter(&mut self) -> u64 { ic::g512(ic::g384(self)).0 as u64 }
    fn set_counter(&mut self, c: u64) { ic::g512_set_counter(ic::g384(self), c as u128) }
    fn cv(&mut self) -> [u8; 128] { ic::g512(ic::g384(self)).1 }
    fn set_cv(&mut self, cv: &[u8; 128]) { ic::g512_set_cv(ic::g384(self), cv) }
    fn pos(&mut self) -> usize { ic::g512(ic::g384(self)).2 }
}

fn entry_is(k: usize, kind: u8, chain: &[u8; 128], nb: usize, block: Option<&[u8; 128]>) -> bool {
    unsafe {
        let mut ok = k < rec::N && rec::KIND[k] == kind;
        let mut i = 0;
        while i < nb { ok &= rec::CV_IN[k][i] == chain[i]; i += 1; }
        if let Some(b) = block {
            let mut i = 0;
            while i < nb { ok &= rec::BLOCK[k][i] == b[i]; i += 1; }
        }
        ok
    }
}
fn out_of(k: usize) -> [u8; 128] { unsafe { rec::CV_OUT[k] } }

fn arbitrary_state<T: GrTy>(pending: &[u8; 128], p: usize, headroom: u64) -> (T, [u8; 128], u64) {
    let mut h = T::default(); // logs one init call, irrelevant here
    h.update(&pending[..p]);
    let cv: [u8; 128] = any();
    let c: u64 = any();
    // format limit (C17): the block count including padding fits 64 bits
    nd::assume(c <= u64::MAX - headroom);
    h.set_cv(&cv);
    h.set_counter(c);
    let mut cvm = [0u8; 128];
    let mut i = 0; while i < T::B { cvm[i] = cv[i]; i += 1; }
    (h, cvm, c)
}

/// specification padding: final block(s) for p pending bytes when `count0` blocks were compressed
fn final_blocks(pending: &[u8; 128], p: usize, b: usize, count0: u64) -> (usize, [[u8; 128]; 2]) {
    let mut blocks = [[0u8; 128]; 2];
    let mut i = 0;
    while i < p { blocks[0][i] = pending[i]; i += 1; }
    blocks[0][p] = 0x80;
    let n = if p + 1 + 8 <= b { 1 } else { 2 };
    let total = count0 + n as u64;
    let mut i = 0;
    while i < 8 { blocks[n - 1][b - 1 - i] = (total >> (8 * i)) as u8; i += 1; }
    (n, blocks)
}

pub fn chk_finalize<T: GrTy>(p: usize) {
    let pending: [u8; 128] = any();
    let (mut h, cv, c) = arbitrary_state::<T>(&pending, p, 4);
    rec::reset();
    let mut out = GenericArray::default();
    h.finalize_into_dirty(&mut out);
    let (n, blocks) = final_blocks(&pending, p, T::B, c);
    let mut chain = cv;
    let mut ok = true;
    let mut k = 0;
    while k < n {
        let blk: [u8; 128] = blocks[k];
        ok &= entry_is(k, 1, &chain, T::B, Some(&blk));
        if k < rec::count() { chain = out_of(k); }
        k += 1;
    }
    ok &= entry_is(n, 2, &chain, T::B, None);
    obl!(rec::count() == n + 1, "padding_blocks_then_one_output_transformation");
    obl!(ok, "padding_block_count_and_chaining_as_specified");
    let res = if n < rec::count() { out_of(n) } else { [0u8; 128] };
    let mut okd = true;
    let mut i = 0;
    while i < T::OUT { okd &= out[i] == res[T::B - T::OUT + i]; i += 1; }
    obl!(okd, "digest_is_last_n_bits_of_output_transformation");
}

pub fn chk_update<T: GrTy>(p: usize, n: usize) {
    let pending: [u8; 128] = any();
    let data: [u8; 300] = any();
    let (mut h, cv, c) = arbitrary_state::<T>(&pending, p, 8);
    rec::reset();
    h.update(&data[..n]);
    let q = p + n;
    let nblk = q / T::B;
    let byte_at = |i: usize| if i < p { pending[i] } else { data[i - p] };
    let mut chain = cv;
    let mut ok = true;
    let mut k = 0;
    while k < nblk {
        let mut blk = [0u8; 128];
        let mut i = 0;
        while i < T::B { blk[i] = byte_at(k * T::B + i); i += 1; }
        ok &= entry_is(k, 1, &chain, T::B, Some(&blk));
        if k < rec::count() { chain = out_of(k); }
        k += 1;
    }
    obl!(rec::count() == nblk, "update_compresses_exactly_the_complete_blocks");
    obl!(ok, "blocks_in_order_with_chaining");
    obl!(h.counter() == c + nblk as u64, "block_counter_counts_compressed_blocks_exactly");
    obl!(h.pos() == q % T::B, "pending_length_is_remainder");
    let hc = h.cv();
    let mut cv_ok = true;
    let mut i = 0; while i < T::B { cv_ok &= hc[i] == chain[i]; i += 1; }
    obl!(cv_ok, "chaining_value_is_result_of_last_block");
    let base = rec::count();
    let mut out = GenericArray::default();
    h.finalize_into_dirty(&mut out);
    let r = q % T::B;
    let mut pend_ok = rec::count() > base;
    let mut i = 0;
    while i < r { pend_ok &= unsafe { rec::BLOCK[base][i] } == byte_at(nblk * T::B + i); i += 1; }
    pend_ok &= unsafe { rec::BLOCK[base][r] } == 0x80;
    obl!(pend_ok, "pending_bytes_are_the_stream_remainder");
}

fn iv_bytes<T: GrTy>() -> [u8; 128] {
    // all zero except the output size in bits as a big-endian integer at the end
    let mut iv = [0u8; 128];
    let bits = (T::OUT * 8) as u64;
    let mut i = 0;
    while i < 8 { iv[T::B - 1 - i] = (bits >> (8 * i)) as u8; i += 1; }
    iv
}
pub fn chk_default_reset<T: GrTy>() {
    rec::reset();
    let mut d = T::default();
    let iv = iv_bytes::<T>();
    obl!(rec::count() == 1 && entry_is(0, 3, &iv, T::B, None), "default_initial_value_is_output_size_big_endian");
    let o = out_of(0);
    let dc = d.cv();
    let mut ok = true;
    let mut i = 0; while i < T::B { ok &= dc[i] == o[i]; i += 1; }
    obl!(ok && d.counter() == 0 && d.pos() == 0, "default_state_is_converted_iv_counter_zero_buffer_empty");
    // reset from an arbitrary state re-creates it
    let pending: [u8; 128] = any();
    // every (fill, chaining value, counter) combination, in particular the empty buffer with counter 0 and a
    // used chaining value that finalize_into_dirty leaves behind
    let (mut h, _cv, _c) = arbitrary_state::<T>(&pending, 0, 0);
    if any::<bool>() { h.update(&pending[..5]); } // five pending bytes: nothing is compressed, the state stays arbitrary
    rec::reset();
    h.reset();
    obl!(rec::count() == 1 && entry_is(0, 3, &iv, T::B, None), "reset_recreates_the_variant_iv");
    let o = out_of(0);
    let hc = h.cv();
    let mut ok = true;
    let mut i = 0; while i < T::B { ok &= hc[i] == o[i]; i += 1; }
    obl!(ok && h.counter() == 0 && h.pos() == 0, "reset_state_equals_fresh_state");
}
pub fn chk_clone<T: GrTy>(p: usize, n: usize) {
    let pending: [u8; 128] = any();
    let data: [u8; 300] = any();
    let (mut h, cv, c) = arbitrary_state::<T>(&pending, p, 8);
    let mut cl = h.clone();
    rec::reset();
    cl.update(&data[..n]);
    let hc = h.cv();
    let mut ok = h.counter() == c && h.pos() == p;
    let mut i = 0; while i < T::B { ok &= hc[i] == cv[i]; i += 1; }
    obl!(ok, "original_unchanged_by_operations_on_clone");
    let base = rec::count();
    let mut out = GenericArray::default();
    h.finalize_into_dirty(&mut out);
    let mut pend_ok = rec::count() > base;
    let mut i = 0;
    while i < p { pend_ok &= unsafe { rec::BLOCK[base][i] } == pending[i]; i += 1; }
    obl!(pend_ok, "original_pending_bytes_unchanged");
}
include!("groestl_shapes.rs");
