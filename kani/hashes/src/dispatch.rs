fn dispatch(_name: &str) -> bool { false }
