// Skein mode of operation (C05 obligations 3-4, C08, C17): Default (configuration UBI), update (lazy:
// the last full block is held back), finalize (final message block + counter-mode output blocks),
// reset, clone -- from an ARBITRARY reachable-shaped state (symbolic chaining value, symbolic byte
// position consistent with the buffer), with process_block replaced by its contract (t0 += add;
// x := UBI step, uninterpreted; FIRST cleared) whose instance against Threefish is proved separately.
// Expected calls follow "The Skein Hash Function Family" v1.3, sections 3.4 (UBI, tweak layout),
// 3.5.1 (configuration block) and 3.5.3 (output function).
use crate::nd::{self, any};
use digest::generic_array::typenum::{U1, U128, U20, U200, U32, U33, U64, U65, U7, U8, U129};
use digest::generic_array::GenericArray;
use digest::{FixedOutputDirty, Reset, Update};
use skein_hash::verif_incrate as ic;
use skein_hash::verif_incrate::rec;
use skein_hash::{Skein1024, Skein256, Skein512};

const FIRST: u64 = 1 << 62;
const FINAL: u64 = 1 << 63;
const TYPE_CFG: u64 = 4 << 56;
const TYPE_MSG: u64 = 48 << 56;
const TYPE_OUT: u64 = 63 << 56;

pub trait SkTy: Default + Clone + Update + FixedOutputDirty + Reset {
    const B: usize;
    const OUT: usize;
    fn get(&self) -> ((u64, u64), [u8; 128], usize);
    fn set(&mut self, t: (u64, u64), x: &[u8; 128]);
}
macro_rules! sk {
    ($T:ident, $N:ident, $b:expr, $out:expr, $get:ident, $set:ident) => {
        impl SkTy for $T<$N> {
            const B: usize = $b;
            const OUT: usize = $out;
            fn get(&self) -> ((u64, u64), [u8; 128], usize) { ic::$get(self) }
            fn set(&mut self, t: (u64, u64), x: &[u8; 128]) { ic::$set(self, t, x) }
        }
    };
}
sk!(Skein256, U1, 32, 1, s256, s256_set);
sk!(Skein256, U7, 32, 7, s256, s256_set);
sk!(Skein256, U8, 32, 8, s256, s256_set);
sk!(Skein256, U20, 32, 20, s256, s256_set);
sk!(Skein256, U32, 32, 32, s256, s256_set);
sk!(Skein256, U33, 32, 33, s256, s256_set);
sk!(Skein256, U64, 32, 64, s256, s256_set);
sk!(Skein256, U65, 32, 65, s256, s256_set);
sk!(Skein256, U200, 32, 200, s256, s256_set);
sk!(Skein512, U1, 64, 1, s512, s512_set);
sk!(Skein512, U32, 64, 32, s512, s512_set);
sk!(Skein512, U64, 64, 64, s512, s512_set);
sk!(Skein512, U65, 64, 65, s512, s512_set);
sk!(Skein512, U200, 64, 200, s512, s512_set);
sk!(Skein1024, U1, 128, 1, s1024, s1024_set);
sk!(Skein1024, U32, 128, 32, s1024, s1024_set);
sk!(Skein1024, U64, 128, 64, s1024, s1024_set);
sk!(Skein1024, U128, 128, 128, s1024, s1024_set);
sk!(Skein1024, U129, 128, 129, s1024, s1024_set);
sk!(Skein1024, U200, 128, 200, s1024, s1024_set);

fn entry_is(k: usize, nb: usize, chain: &[u8; 128], block: &[u8; 128], t0: u64, t1: u64) -> bool {
    unsafe {
        let mut ok = k < rec::N && rec::KIND[k] == 1;
        let mut i = 0;
        while i < nb { ok &= rec::CV_IN[k][i] == chain[i]; i += 1; }
        let mut i = 0;
        while i < nb { ok &= rec::BLOCK[k][i] == block[i]; i += 1; }
        ok &= rec::AUX[k][0] == t0 && rec::AUX[k][1] == t1;
        ok
    }
}
fn out_of(k: usize) -> [u8; 128] { unsafe { rec::CV_OUT[k] } }

/// Arbitrary state of the shape reachable by update: `blocks` full blocks already processed
/// (position t0 = blocks*B, FIRST still set iff blocks == 0), p buffered bytes, and p == 0 only for
/// the empty stream.  Format limit of this implementation (C17): the byte position fits 64 bits.
fn arbitrary_state<T: SkTy>(pending: &[u8; 128], p: usize, headroom: u64) -> (T, [u8; 128], u64) {
    let mut h = T::default(); // one configuration call is logged; irrelevant here
    h.update(&pending[..p]);
    let x: [u8; 128] = any();
    let blocks: u64 = any();
    nd::assume(blocks <= (u64::MAX - headroom - 2 * T::B as u64) / T::B as u64);
    if p == 0 { nd::assume(blocks == 0); }
    let t0 = blocks * T::B as u64;
    let t1 = TYPE_MSG | if blocks == 0 { FIRST } else { 0 };
    h.set((t0, t1), &x);
    let mut xm = [0u8; 128];
    let mut i = 0; while i < T::B { xm[i] = x[i]; i += 1; }
    (h, xm, blocks)
}

pub fn chk_finalize<T: SkTy>(p: usize) {
    let pending: [u8; 128] = any();
    let (mut h, x, blocks) = arbitrary_state::<T>(&pending, p, 0);
    rec::reset();
    let mut out = GenericArray::default();
    h.finalize_into_dirty(&mut out);
    let t0 = blocks * T::B as u64;
    let t1 = TYPE_MSG | if blocks == 0 { FIRST } else { 0 };
    // final message block: pending bytes zero-padded, position advanced by p, FINAL set
    let mut blk = [0u8; 128];
    let mut i = 0; while i < p { blk[i] = pending[i]; i += 1; }
    let mut ok = entry_is(0, T::B, &x, &blk, t0 + p as u64, t1 | FINAL);
    let g = if rec::count() > 0 { out_of(0) } else { [0u8; 128] };
    // output blocks: fresh UBI each, counter i little-endian in a zero block, 8 bytes, FIRST|FINAL|OUT
    let nout = (T::OUT + T::B - 1) / T::B;
    let mut okd = true;
    let mut j = 0;
    while j < nout {
        let mut cb = [0u8; 128];
        let mut i = 0; while i < 8 { cb[i] = ((j as u64) >> (8 * i)) as u8; i += 1; }
        ok &= entry_is(1 + j, T::B, &g, &cb, 8, FIRST | FINAL | TYPE_OUT);
        let o = if 1 + j < rec::count() { out_of(1 + j) } else { [0u8; 128] };
        let lo = j * T::B;
        let hi = if lo + T::B < T::OUT { lo + T::B } else { T::OUT };
        let mut i = lo;
        while i < hi { okd &= out[i] == o[i - lo]; i += 1; }
        j += 1;
    }
    obl!(rec::count() == 1 + nout, "one_final_message_block_then_ceil_n_over_b_output_blocks");
    obl!(ok, "final_block_and_output_blocks_tweaks_and_chaining_as_specified");
    obl!(okd, "digest_is_output_blocks_truncated_to_n_bytes");
}

pub fn chk_update<T: SkTy>(p: usize, n: usize) {
    let pending: [u8; 128] = any();
    let data: [u8; 300] = any();
    let (mut h, x, blocks) = arbitrary_state::<T>(&pending, p, 600);
    rec::reset();
    h.update(&data[..n]);
    let q = p + n;
    // lazy: a block is processed only when more data follows it
    let nblk = if q == 0 { 0 } else { (q - 1) / T::B };
    let byte_at = |i: usize| if i < p { pending[i] } else { data[i - p] };
    let mut chain = x;
    let mut ok = true;
    let mut k = 0;
    while k < nblk {
        let mut blk = [0u8; 128];
        let mut i = 0;
        while i < T::B { blk[i] = byte_at(k * T::B + i); i += 1; }
        let first = blocks == 0 && k == 0;
        ok &= entry_is(k, T::B, &chain, &blk, (blocks + k as u64 + 1) * T::B as u64, TYPE_MSG | if first { FIRST } else { 0 });
        if k < rec::count() { chain = out_of(k); }
        k += 1;
    }
    obl!(rec::count() == nblk, "update_processes_all_but_the_last_block");
    obl!(ok, "blocks_in_order_with_byte_position_first_flag_and_chaining");
    let (t, xx, pos) = h.get();
    let b2 = blocks + nblk as u64;
    obl!(t.0 == b2 * T::B as u64, "byte_position_counts_processed_bytes_exactly");
    obl!(t.1 == (TYPE_MSG | if b2 == 0 { FIRST } else { 0 }), "first_flag_cleared_after_first_block_only");
    obl!(pos == q - nblk * T::B, "pending_length_is_remainder_keeping_a_full_last_block");
    let mut cv_ok = true;
    let mut i = 0; while i < T::B { cv_ok &= xx[i] == chain[i]; i += 1; }
    obl!(cv_ok, "chaining_value_is_result_of_last_block");
    let base = rec::count();
    let mut out = GenericArray::default();
    h.finalize_into_dirty(&mut out);
    let r = q - nblk * T::B;
    let mut pend_ok = rec::count() > base;
    let mut i = 0;
    while i < T::B {
        let e = if i < r { byte_at(nblk * T::B + i) } else { 0 };
        pend_ok &= unsafe { rec::BLOCK[base][i] } == e;
        i += 1;
    }
    obl!(pend_ok, "pending_bytes_are_the_stream_remainder_zero_padded");
}

pub fn chk_default_reset<T: SkTy>() {
    rec::reset();
    let d = T::default();
    // configuration string (3.5.1): "SHA3", version 1, 2 reserved bytes, output length in bits (8 bytes LE),
    // tree parameters 0, zero padding; UBI with FIRST|FINAL|CFG and position 32, from the all-zero state
    let mut cfg = [0u8; 128];
    cfg[0] = 0x53; cfg[1] = 0x48; cfg[2] = 0x41; cfg[3] = 0x33; cfg[4] = 1;
    let bits = (T::OUT as u64) * 8;
    let mut i = 0; while i < 8 { cfg[8 + i] = (bits >> (8 * i)) as u8; i += 1; }
    let zero = [0u8; 128];
    obl!(rec::count() == 1 && entry_is(0, T::B, &zero, &cfg, 32, FIRST | FINAL | TYPE_CFG), "default_processes_the_configuration_block");
    let (t, x, pos) = d.get();
    let o = out_of(0);
    let mut ok = t == (0, FIRST | TYPE_MSG) && pos == 0;
    let mut i = 0; while i < T::B { ok &= x[i] == o[i]; i += 1; }
    obl!(ok, "default_state_is_configured_chaining_value_position_zero_first_message_tweak");
    let pending: [u8; 128] = any();
    let (mut h, _x, _b) = arbitrary_state::<T>(&pending, 0, 0);
    if any::<bool>() { h.update(&pending[..5]); } // five pending bytes: nothing is compressed, the state stays arbitrary
    rec::reset();
    h.reset();
    obl!(rec::count() == 1 && entry_is(0, T::B, &zero, &cfg, 32, FIRST | FINAL | TYPE_CFG), "reset_reprocesses_the_configuration_block");
    let (t, x, pos) = h.get();
    let o = out_of(0);
    let mut ok = t == (0, FIRST | TYPE_MSG) && pos == 0;
    let mut i = 0; while i < T::B { ok &= x[i] == o[i]; i += 1; }
    obl!(ok, "reset_state_equals_fresh_state");
}
pub fn chk_clone<T: SkTy>(p: usize, n: usize) {
    let pending: [u8; 128] = any();
    let data: [u8; 300] = any();
    let (mut h, x, blocks) = arbitrary_state::<T>(&pending, p, 600);
    let mut cl = h.clone();
    rec::reset();
    cl.update(&data[..n]);
    let (t, xx, pos) = h.get();
    let mut ok = t.0 == blocks * T::B as u64 && pos == p;
    let mut i = 0; while i < T::B { ok &= xx[i] == x[i]; i += 1; }
    obl!(ok, "original_unchanged_by_operations_on_clone");
    let base = rec::count();
    let mut out = GenericArray::default();
    h.finalize_into_dirty(&mut out);
    let mut pend_ok = rec::count() > base;
    let mut i = 0;
    while i < p { pend_ok &= unsafe { rec::BLOCK[base][i] } == pending[i]; i += 1; }
    obl!(pend_ok, "original_pending_bytes_unchanged");
}
include!("skein_shapes.rs");
