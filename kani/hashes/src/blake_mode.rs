// BLAKE mode of operation (C04 obligations 3-5, C08, C17): update / finalize / reset / clone from an
// ARBITRARY state (symbolic chaining value, symbolic bit counter, p pending bytes with symbolic
// content), with Compressor*::put_block replaced by its contract stub (uninterpreted function +
// call log).  The expected calls are those of the BLAKE specification's padding and counter rules.
use crate::nd::{self, any};
use crate::spec_blake as spec;
use blake_hash::verif_incrate as ic;
use blake_hash::verif_incrate::rec;
use blake_hash::{Blake224, Blake256, Blake384, Blake512};
use digest::generic_array::GenericArray;
use digest::{FixedOutputDirty, Reset, Update};

pub trait BlakeTy: Default + Clone + Update + FixedOutputDirty + Reset {
    const B: usize;
    const OUT: usize;
    const FULL: bool;
    const WBITS: u32;
    fn t(&self) -> u128;
    fn set_t(&mut self, t: u128);
    fn h(&mut self) -> [u8; 64];
    fn set_h(&mut self, h: &[u8; 64]);
    fn pos(&self) -> usize;
    fn iv() -> [u8; 64];
}
fn be32(w: [u32; 8]) -> [u8; 64] {
    let mut o = [0u8; 64];
    let mut i = 0;
    while i < 8 { let b = w[i].to_be_bytes(); o[4 * i] = b[0]; o[4 * i + 1] = b[1]; o[4 * i + 2] = b[2]; o[4 * i + 3] = b[3]; i += 1; }
    o
}
fn be64(w: [u64; 8]) -> [u8; 64] {
    let mut o = [0u8; 64];
    let mut i = 0;
    while i < 8 { let b = w[i].to_be_bytes(); let mut j = 0; while j < 8 { o[8 * i + j] = b[j]; j += 1; } i += 1; }
    o
}
macro_rules! blake32 {
    ($T:ident, $out:expr, $full:expr, $t:ident, $set_t:ident, $comp:ident, $pos:ident, $iv:ident) => {
        impl BlakeTy for $T {
            const B: usize = 64;
            const OUT: usize = $out;
            const FULL: bool = $full;
            const WBITS: u32 = 32;
            fn t(&self) -> u128 { let t = ic::$t(self); ((t.1 as u128) << 32) | t.0 as u128 }
            fn set_t(&mut self, t: u128) { ic::$set_t(self, (t as u32, (t >> 32) as u32)); }
            fn h(&mut self) -> [u8; 64] { be32(ic::h256(ic::$comp(self))) }
            fn set_h(&mut self, h: &[u8; 64]) {
                let mut w = [0u32; 8];
                let mut i = 0;
                while i < 8 { w[i] = u32::from_be_bytes([h[4 * i], h[4 * i + 1], h[4 * i + 2], h[4 * i + 3]]); i += 1; }
                ic::set_h256(ic::$comp(self), w);
            }
            fn pos(&self) -> usize { ic::$pos(self) }
            fn iv() -> [u8; 64] { be32(spec::$iv) }
        }
    };
}
macro_rules! blake64 {
    ($T:ident, $out:expr, $full:expr, $t:ident, $set_t:ident, $comp:ident, $pos:ident, $iv:ident) => {
        impl BlakeTy for $T {
            const B: usize = 128;
            const OUT: usize = $out;
            const FULL: bool = $full;
            const WBITS: u32 = 64;
            fn t(&self) -> u128 { let t = ic::$t(self); ((t.1 as u128) << 64) | t.0 as u128 }
            fn set_t(&mut self, t: u128) { ic::$set_t(self, (t as u64, (t >> 64) as u64)); }
            fn h(&mut self) -> [u8; 64] { be64(ic::h512(ic::$comp(self))) }
            fn set_h(&mut self, h: &[u8; 64]) {
                let mut w = [0u64; 8];
                let mut i = 0;
                while i < 8 {
                    w[i] = u64::from_be_bytes([h[8 * i], h[8 * i + 1], h[8 * i + 2], h[8 * i + 3], h[8 * i + 4], h[8 * i + 5], h[8 * i + 6], h[8 * i + 7]]);
                    i += 1;
                }
                ic::set_h512(ic::$comp(self), w);
            }
            fn pos(&self) -> usize { ic::$pos(self) }
            fn iv() -> [u8; 64] { be64(spec::$iv) }
        }
    };
}
blake32!(Blake224, 28, false, t224, set_t224, comp224, pos224, IV224);
blake32!(Blake256, 32, true, t256, set_t256, comp256, pos256, IV256);
blake64!(Blake384, 48, false, t384, set_t384, comp384, pos384, IV384);
blake64!(Blake512, 64, true, t512, set_t512, comp512, pos512, IV512);

const HB: usize = 64; // chaining value bytes compared: 32 for BLAKE-256, 64 for BLAKE-512
fn hbytes<T: BlakeTy>() -> usize { if T::B == 64 { 32 } else { 64 } }

/// Arbitrary state: symbolic chaining value and counter, p pending bytes of symbolic content.
/// Precondition (format limit, C17): the total bit count after the operation fits the 2W-bit counter.
fn arbitrary_state<T: BlakeTy>(pending: &[u8; 128], p: usize, headroom_bits: u128) -> (T, [u8; 64], u128) {
    let mut h = T::default();
    h.update(&pending[..p]);
    let hv: [u8; 64] = any();
    let t: u128 = any();
    let limit: u128 = if T::WBITS == 32 { 1u128 << 64 } else { u128::MAX };
    nd::assume(t <= limit - headroom_bits - 1);
    h.set_h(&hv);
    h.set_t(t);
    (h, hv, t)
}
fn ctr_words<T: BlakeTy>(c: u128) -> [u64; 2] {
    if T::WBITS == 32 { [(c as u32) as u64, ((c >> 32) as u32) as u64] } else { [c as u64, (c >> 64) as u64] }
}
/// log entry k is put_block(chain, block, counter) and chain is what the previous call returned
fn call_is<T: BlakeTy>(k: usize, chain: &[u8; 64], block: &[u8], ctr: u128) -> bool {
    unsafe {
        let mut ok = k < rec::N && rec::KIND[k] == 1;
        let mut i = 0;
        while i < hbytes::<T>() { ok &= rec::CV_IN[k][i] == chain[i]; i += 1; }
        let mut i = 0;
        while i < T::B { ok &= rec::BLOCK[k][i] == block[i]; i += 1; }
        ok &= rec::AUX[k] == ctr_words::<T>(ctr);
        ok
    }
}
fn out_of(k: usize) -> [u8; 64] {
    let mut o = [0u8; 64];
    unsafe { let mut i = 0; while i < 64 { o[i] = rec::CV_OUT[k][i]; i += 1; } }
    o
}

/// finalize_into_dirty from an arbitrary state with p pending bytes (p concrete, 0 <= p < B).
pub fn chk_finalize<T: BlakeTy>(p: usize) {
    let pending: [u8; 128] = any();
    let (mut h, hv, t) = arbitrary_state::<T>(&pending, p, 8 * 128);
    rec::reset();
    let mut out = GenericArray::default();
    h.finalize_into_dirty(&mut out);
    let mut chain = hv;
    let mut ok = true;
    let nb;
    if T::B == 64 {
        let mut pb = [0u8; 64];
        let mut i = 0; while i < 64 { pb[i] = pending[i]; i += 1; }
        let (n, blocks, ctr) = spec::final_blocks::<64>(&pb, p, t, T::FULL);
        nb = n;
        let mut k = 0;
        while k < n { let blk: [u8; 64] = blocks[k]; ok &= call_is::<T>(k, &chain, &blk, ctr[k]); if k < rec::count() { chain = out_of(k); } k += 1; }
    } else {
        let (n, blocks, ctr) = spec::final_blocks::<128>(&pending, p, t, T::FULL);
        nb = n;
        let mut k = 0;
        while k < n { let blk: [u8; 128] = blocks[k]; ok &= call_is::<T>(k, &chain, &blk, ctr[k]); if k < rec::count() { chain = out_of(k); } k += 1; }
    }
    obl!(rec::count() == nb, "number_of_final_blocks_as_specified");
    obl!(ok, "final_blocks_padding_counter_and_chaining_as_specified");
    // digest = big-endian words of the final chaining value, truncated
    let mut okd = true;
    let mut i = 0;
    while i < T::OUT { okd &= out[i] == chain[i]; i += 1; }
    obl!(okd, "digest_is_truncated_big_endian_chaining_value");
}

/// update(data[..n]) from an arbitrary state with p pending bytes; then the pending bytes are
/// observed through finalize.
pub fn chk_update<T: BlakeTy>(p: usize, n: usize) {
    let pending: [u8; 128] = any();
    let data: [u8; 300] = any();
    let (mut h, hv, t) = arbitrary_state::<T>(&pending, p, 8 * (128 + 300 + 128));
    rec::reset();
    h.update(&data[..n]);
    // stream = pending ++ data; complete blocks are compressed in order with the running bit counter
    let q = p + n;
    let nblk = q / T::B;
    let byte_at = |i: usize| if i < p { pending[i] } else { data[i - p] };
    let mut chain = hv;
    let mut ok = true;
    let mut k = 0;
    while k < nblk {
        let mut blk = [0u8; 128];
        let mut i = 0;
        while i < T::B { blk[i] = byte_at(k * T::B + i); i += 1; }
        ok &= call_is::<T>(k, &chain, &blk, t + ((k + 1) * T::B * 8) as u128);
        if k < rec::count() { chain = out_of(k); }
        k += 1;
    }
    obl!(rec::count() == nblk, "update_compresses_exactly_the_complete_blocks");
    obl!(ok, "blocks_in_order_with_running_bit_counter_and_chaining");
    let t2 = t + (nblk * T::B * 8) as u128;
    obl!(h.t() == t2, "bit_counter_counts_compressed_blocks_exactly");
    obl!(h.pos() == q % T::B, "pending_length_is_remainder");
    let mut cv_ok = true;
    let hc = h.h();
    let mut i = 0; while i < hbytes::<T>() { cv_ok &= hc[i] == chain[i]; i += 1; }
    obl!(cv_ok, "chaining_value_is_result_of_last_block");
    // pending bytes: the first final block must start with the remainder of the stream
    let base = rec::count();
    let mut out = GenericArray::default();
    h.finalize_into_dirty(&mut out);
    let r = q % T::B;
    let mut pend_ok = rec::count() > base;
    let mut i = 0;
    while i < r { pend_ok &= unsafe { rec::BLOCK[base][i] } == byte_at(nblk * T::B + i); i += 1; }
    pend_ok &= unsafe { rec::BLOCK[base][r] } == 0x80;
    obl!(pend_ok, "pending_bytes_are_the_stream_remainder");
}

/// Default is the specified initial value with zero counter; reset returns to it from any state.
pub fn chk_default_reset<T: BlakeTy>() {
    let mut d = T::default();
    let iv = T::iv();
    let hd = d.h();
    let mut ok = true;
    let mut i = 0; while i < hbytes::<T>() { ok &= hd[i] == iv[i]; i += 1; }
    obl!(ok, "default_chaining_value_is_specified_iv");
    obl!(d.t() == 0 && d.pos() == 0, "default_counter_and_buffer_empty");
    let pending: [u8; 128] = any();
    // from every state: empty or partly filled buffer, any chaining value, any counter (finalize_into_dirty leaves
    // an empty buffer with a used chaining value behind)
    let mut h = T::default();
    if any::<bool>() { h.update(&pending[..5]); }
    let hv: [u8; 64] = any();
    h.set_h(&hv);
    h.set_t(any());
    h.reset();
    let hr = h.h();
    let mut ok2 = true;
    let mut i = 0; while i < hbytes::<T>() { ok2 &= hr[i] == iv[i]; i += 1; }
    obl!(ok2 && h.t() == 0 && h.pos() == 0, "reset_restores_default_state");
}

/// A clone continues independently: operating on the clone leaves the original's state untouched.
pub fn chk_clone<T: BlakeTy>(p: usize, n: usize) {
    let pending: [u8; 128] = any();
    let data: [u8; 300] = any();
    let (mut h, hv, t) = arbitrary_state::<T>(&pending, p, 8 * (128 + 300 + 128));
    let mut c = h.clone();
    rec::reset();
    c.update(&data[..n]);
    let hh = h.h();
    let mut ok = h.t() == t && h.pos() == p;
    let mut i = 0; while i < hbytes::<T>() { ok &= hh[i] == hv[i]; i += 1; }
    obl!(ok, "original_unchanged_by_operations_on_clone");
    // and the original still holds its own pending bytes
    let base = rec::count();
    let mut out = GenericArray::default();
    h.finalize_into_dirty(&mut out);
    let mut pend_ok = rec::count() > base;
    let mut i = 0;
    while i < p { pend_ok &= unsafe { rec::BLOCK[base][i] } == pending[i]; i += 1; }
    obl!(pend_ok, "original_pending_bytes_unchanged");
}

include!("blake_shapes.rs");
