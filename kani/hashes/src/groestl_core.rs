// Groestl compression function (C07 obligation 2): leaf contracts of mul2, the matrix transposes
// and one round of P||Q (512) against the specification with the AES S-box left symbolic (model of
// AESENCLAST in kani/common/models.rs), and the wiring of tf512 / of512 / init512 with `round` as
// uninterpreted function against  h' = P(h ^ m) ^ Q(m) ^ h  and  trunc(P(h) ^ h).
use crate::nd::{self, any};
use crate::spec_groestl as spec;
use groestl_aesni::verif_incrate::cc;

type M8 = [[u8; 8]; 8];
/// register layout of the 512-bit permutations: xmm r = row r of P (8 bytes) | row r of Q (8 bytes)
fn lpq(p: &M8, q: &M8) -> [u8; 128] {
    let mut o = [0u8; 128];
    let mut r = 0;
    while r < 8 { let mut c = 0; while c < 8 { o[16 * r + c] = p[r][c]; o[16 * r + 8 + c] = q[r][c]; c += 1; } r += 1; }
    o
}
/// row-major layout of one 8x8 matrix in four registers
fn lrows(a: &M8) -> [u8; 64] {
    let mut o = [0u8; 64];
    let mut r = 0;
    while r < 8 { let mut c = 0; while c < 8 { o[8 * r + c] = a[r][c]; c += 1; } r += 1; }
    o
}
fn eq128(a: &[u8; 128], b: &[u8; 128]) -> bool { let mut ok = true; let mut i = 0; while i < 128 { ok &= a[i] == b[i]; i += 1; } ok }
fn eq64(a: &[u8; 64], b: &[u8; 64]) -> bool { let mut ok = true; let mut i = 0; while i < 64 { ok &= a[i] == b[i]; i += 1; } ok }

pub fn leaf_mul2_transposes() {
    let sel: u8 = any();
    match sel {
        0 => {
            let x: [u8; 16] = any();
            let y = cc::mul2_real(x);
            let mut ok = true;
            let mut i = 0;
            while i < 16 { ok &= y[i] == spec::mul2(x[i]); i += 1; }
            obl!(ok, "mul2_is_gf256_doubling_per_byte");
        }
        1 => {
            let b: [u8; 64] = any();
            let a: M8 = spec::from_bytes::<8, 64>(&b);
            obl!(eq64(&cc::transpose_a_real(b), &lrows(&a)), "transpose_a_bytes_to_row_layout");
            obl!(eq64(&cc::init512_real(b), &lrows(&a)), "init512_is_row_layout_of_iv");
        }
        2 => {
            let x: M8 = any();
            let y: M8 = any();
            let mut inp = [0u8; 128];
            let (lx, ly) = (lrows(&x), lrows(&y));
            let mut i = 0;
            while i < 64 { inp[i] = lx[i]; inp[64 + i] = ly[i]; i += 1; }
            obl!(eq128(&cc::transpose_b_real(inp), &lpq(&x, &y)), "transpose_b_pairs_rows_of_p_and_q");
            obl!(eq128(&cc::transpose_b_inv_real(lpq(&x, &y)), &inp), "transpose_b_inv_is_inverse");
        }
        3 => {
            let x: M8 = any();
            let z: M8 = [[0u8; 8]; 8];
            obl!(eq128(&cc::transpose_o_b_real(lrows(&x)), &lpq(&x, &z)), "transpose_o_b_rows_with_zero_q_half");
            let y: M8 = any();
            obl!(eq64(&cc::transpose_o_b_inv_real(lpq(&x, &y)), &lrows(&x)), "transpose_o_b_inv_takes_p_half");
        }
        _ => {}
    }
}

/// one round of the 512-bit permutations: round(i, P || Q) == (round i of P, round i of Q)
pub fn leaf_round512() {
    let sbox: [u8; 256] = any();
    unsafe { crate::models::AES_SBOX = sbox; }
    let p: M8 = any();
    let q: M8 = any();
    let i: u8 = any();
    nd::assume(i < 10);
    let got = cc::round_real(i as i64, lpq(&p, &q));
    let ep = spec::round_p::<8>(p, i, &sbox, spec::SIGMA_P512);
    let eq = spec::round_q::<8>(q, i, &sbox, spec::SIGMA_Q512);
    obl!(eq128(&got, &lpq(&ep, &eq)), "round_equals_spec_round_of_p_and_q");
}

/// the same obligation restricted to the output columns 2k and 2k+1 of the 16-byte rows (a column of the
/// result depends on one shifted column of the input, so CBMC's slicer keeps an eighth of the S-box
/// lookups): the eight parts together are the whole statement and run in parallel in the quick tier
fn eq_cols(a: &[u8; 128], b: &[u8; 128], k: usize) -> bool {
    let mut ok = true;
    let mut r = 0;
    while r < 8 { ok &= a[16 * r + 2 * k] == b[16 * r + 2 * k] && a[16 * r + 2 * k + 1] == b[16 * r + 2 * k + 1]; r += 1; }
    ok
}
pub fn leaf_round512_part(k: usize) {
    let sbox: [u8; 256] = any();
    unsafe { crate::models::AES_SBOX = sbox; }
    let p: M8 = any();
    let q: M8 = any();
    let i: u8 = any();
    nd::assume(i < 10);
    let got = cc::round_real(i as i64, lpq(&p, &q));
    let ep = spec::round_p::<8>(p, i, &sbox, spec::SIGMA_P512);
    let eq = spec::round_q::<8>(q, i, &sbox, spec::SIGMA_Q512);
    obl!(eq_cols(&got, &lpq(&ep, &eq), k), "round_equals_spec_round_of_p_and_q_on_two_columns");
}
pub fn lemma_submix1024_part(k: usize) {
    let sbox: [u8; 256] = any();
    unsafe { crate::models::AES_SBOX = sbox; }
    let y: M16 = any();
    let is_q: bool = any();
    let sigma = if is_q { spec::SIGMA_Q1024 } else { spec::SIGMA_P1024 };
    let got = cc::submix_real(rows16(&pre_shuffle_rows(&y, sigma)));
    let mut s = [[0u8; 16]; 8];
    let mut i = 0;
    while i < 8 { let mut j = 0; while j < 16 { s[i][j] = sbox[y[i][(j + sigma[i]) % 16] as usize]; j += 1; } i += 1; }
    obl!(eq_cols(&got, &rows16(&spec::mix_bytes::<16>(s)), k), "submix_after_preshuffle_is_mixbytes_shiftbytes_subbytes_on_two_columns");
}
macro_rules! g_parts { ($($n:ident, $m:ident, $k:expr);* $(;)?) => { $(
    harness_x!($n, [kani::stub(core::arch::x86_64::_mm_aesenclast_si128, crate::models::mm_aesenclast_si128)], leaf_round512_part($k));
    harness_x!($m, [kani::stub(core::arch::x86_64::_mm_aesenclast_si128, crate::models::mm_aesenclast_si128)], lemma_submix1024_part($k));
)* } }
harness_x!(c07_leaf_mul2_transposes, [kani::stub(core::arch::x86_64::_mm_aesenclast_si128, crate::models::mm_aesenclast_si128)], leaf_mul2_transposes());
harness_x!(c07_leaf_round512, [kani::stub(core::arch::x86_64::_mm_aesenclast_si128, crate::models::mm_aesenclast_si128)], leaf_round512());

// ---------------------------------------------------------------- wiring, 512-bit variants
fn unlpq(b: &[u8; 128]) -> (M8, M8) {
    let mut p = [[0u8; 8]; 8];
    let mut q = [[0u8; 8]; 8];
    let mut r = 0;
    while r < 8 { let mut c = 0; while c < 8 { p[r][c] = b[16 * r + c]; q[r][c] = b[16 * r + 8 + c]; c += 1; } r += 1; }
    (p, q)
}
/// tf512(row layout of H, m) == row layout of H ^ P(H ^ M) ^ Q(M), with each round by its contract
pub fn wiring_tf512() {
    let h: M8 = any();
    let m: [u8; 64] = any();
    unsafe { cc::UF_N = 0; }
    let out = cc::tf512_real(lrows(&h), &m);
    obl!(unsafe { cc::UF_N } == 10, "ten_rounds");
    let mm: M8 = spec::from_bytes::<8, 64>(&m);
    let mut x = spec::xor_m(h, mm);
    let mut y = mm;
    let mut ok = true;
    let mut i = 0;
    while i < 10 {
        unsafe {
            ok &= cc::UF_KIND[i] == i as i64 && eq128(&cc::UF_IN[i], &lpq(&x, &y));
            let (nx, ny) = unlpq(&cc::UF_OUT[i]);
            x = nx;
            y = ny;
        }
        i += 1;
    }
    obl!(ok, "round_i_applied_to_p_state_h_xor_m_and_q_state_m_in_order");
    let hn = spec::xor_m(spec::xor_m(h, x), y);
    obl!(eq64(&out, &lrows(&hn)), "chaining_value_is_h_xor_p_xor_q");
}
/// of512(row layout of H): bytes 32..64 == the last 32 bytes of P(H) ^ H
pub fn wiring_of512() {
    let h: M8 = any();
    unsafe { cc::UF_N = 0; }
    let out = cc::of512_real(lrows(&h));
    obl!(unsafe { cc::UF_N } == 10, "ten_rounds");
    let mut x = h;
    let mut y: M8 = [[0u8; 8]; 8];
    let mut ok = true;
    let mut i = 0;
    while i < 10 {
        unsafe {
            ok &= cc::UF_KIND[i] == i as i64 && eq128(&cc::UF_IN[i], &lpq(&x, &y));
            let (nx, ny) = unlpq(&cc::UF_OUT[i]);
            x = nx;
            y = ny;
        }
        i += 1;
    }
    obl!(ok, "round_i_applied_to_p_state_h_in_order");
    let e: [u8; 64] = spec::to_bytes::<8, 64>(&spec::xor_m(h, x));
    let mut okd = true;
    let mut k = 32;
    while k < 64 { okd &= out[k] == e[k]; k += 1; }
    obl!(okd, "output_is_last_half_of_p_of_h_xor_h");
}
harness_x!(c07_wiring_tf512, [kani::stub(groestl_aesni::compressor::round, groestl_aesni::compressor::verif_incrate::round_uf)], wiring_tf512());
harness_x!(c07_wiring_of512, [kani::stub(groestl_aesni::compressor::round, groestl_aesni::compressor::verif_incrate::round_uf)], wiring_of512());

// ---------------------------------------------------------------- 1024-bit variants
type M16 = [[u8; 16]; 8];
fn rows16(a: &M16) -> [u8; 128] {
    let mut o = [0u8; 128];
    let mut r = 0;
    while r < 8 { let mut c = 0; while c < 16 { o[16 * r + c] = a[r][c]; c += 1; } r += 1; }
    o
}
fn unrows16(b: &[u8; 128]) -> M16 {
    let mut a = [[0u8; 16]; 8];
    let mut r = 0;
    while r < 8 { let mut c = 0; while c < 16 { a[r][c] = b[16 * r + c]; c += 1; } r += 1; }
    a
}
/// The byte shuffle applied to row r before AESENCLAST so that, after the instruction's own
/// ShiftRows (out[t] = S[in[pi(t)]], pi(r + 4c) = r + 4((c + r) mod 4)), the net effect is a left
/// rotation of the row by sigma: derived from the specification's sigma, not copied from the crate.
fn pre_shuffle(row: [u8; 16], sigma: usize) -> [u8; 16] {
    let mut o = [0u8; 16];
    let mut t = 0;
    while t < 16 {
        let (r, c) = (t % 4, t / 4);
        let u = r + 4 * ((c + r) % 4); // pi(t)
        o[u] = row[(t + sigma) % 16];
        t += 1;
    }
    o
}
fn pre_shuffle_rows(a: &M16, sigma: [usize; 8]) -> M16 {
    let mut o = [[0u8; 16]; 8];
    let mut r = 0;
    while r < 8 { o[r] = pre_shuffle(a[r], sigma[r]); r += 1; }
    o
}
/// Lemma (real submix, AES model with symbolic S-box): submix after the pre-shuffle for sigma is
/// MixBytes . ShiftBytes(sigma) . SubBytes on the row layout -- for the P and the Q shift vectors.
pub fn lemma_submix1024() {
    let sbox: [u8; 256] = any();
    unsafe { crate::models::AES_SBOX = sbox; }
    let y: M16 = any();
    let is_q: bool = any();
    let sigma = if is_q { spec::SIGMA_Q1024 } else { spec::SIGMA_P1024 };
    let got = cc::submix_real(rows16(&pre_shuffle_rows(&y, sigma)));
    // specification: SubBytes, ShiftBytes, MixBytes (no round constant here)
    let mut s = [[0u8; 16]; 8];
    let mut i = 0;
    while i < 8 { let mut j = 0; while j < 16 { s[i][j] = sbox[y[i][(j + sigma[i]) % 16] as usize]; j += 1; } i += 1; }
    obl!(eq128(&got, &rows16(&spec::mix_bytes::<16>(s))), "submix_after_preshuffle_is_mixbytes_shiftbytes_subbytes");
}
fn add_const_p(a: M16, r: u8) -> M16 { let mut a = a; let mut j = 0; while j < 16 { a[0][j] ^= ((j as u8) << 4) ^ r; j += 1; } a }
fn add_const_q(a: M16, r: u8) -> M16 {
    let mut a = a;
    let mut i = 0;
    while i < 8 { let mut j = 0; while j < 16 { a[i][j] ^= 0xff; j += 1; } i += 1; }
    let mut j = 0;
    while j < 16 { a[7][j] ^= ((j as u8) << 4) ^ r; j += 1; }
    a
}
/// replay `n` rounds of P (is_q = false) or Q (true) from log position `base`
fn replay1024(x0: M16, is_q: bool, base: usize, ok: &mut bool) -> M16 {
    let mut x = x0;
    let mut k = 0;
    while k < 14 {
        let withc = if is_q { add_const_q(x, k as u8) } else { add_const_p(x, k as u8) };
        let sigma = if is_q { spec::SIGMA_Q1024 } else { spec::SIGMA_P1024 };
        let e = rows16(&pre_shuffle_rows(&withc, sigma));
        unsafe {
            *ok &= cc::UF_KIND[base + k] == -1 && eq128(&cc::UF_IN[base + k], &e);
            x = unrows16(&cc::UF_OUT[base + k]);
        }
        k += 1;
    }
    x
}
/// tf1024(row layout of H, m) == row layout of H ^ P(H ^ M) ^ Q(M)
pub fn wiring_tf1024() {
    let h: M16 = any();
    let m: [u8; 128] = any();
    unsafe { cc::UF_N = 0; }
    let out = cc::tf1024_real(rows16(&h), &m);
    obl!(unsafe { cc::UF_N } == 28, "fourteen_rounds_of_p_then_fourteen_of_q");
    let mm: M16 = spec::from_bytes::<16, 128>(&m);
    let mut ok = true;
    let px = replay1024(spec::xor_m(h, mm), false, 0, &mut ok);
    let qy = replay1024(mm, true, 14, &mut ok);
    obl!(ok, "round_constants_shift_vectors_and_order_as_specified");
    let hn = spec::xor_m(spec::xor_m(h, px), qy);
    obl!(eq128(&out, &rows16(&hn)), "chaining_value_is_h_xor_p_xor_q");
}
/// of1024(row layout of H): bytes 64..128 == last 64 bytes of P(H) ^ H; init1024 == row layout
pub fn wiring_of1024() {
    let h: M16 = any();
    unsafe { cc::UF_N = 0; }
    let out = cc::of1024_real(rows16(&h));
    obl!(unsafe { cc::UF_N } == 14, "fourteen_rounds_of_p");
    let mut ok = true;
    let px = replay1024(h, false, 0, &mut ok);
    obl!(ok, "round_constants_shift_vectors_and_order_as_specified");
    let e: [u8; 128] = spec::to_bytes::<16, 128>(&spec::xor_m(h, px));
    let mut okd = true;
    let mut k = 64;
    while k < 128 { okd &= out[k] == e[k]; k += 1; }
    obl!(okd, "output_is_last_half_of_p_of_h_xor_h");
    let b: [u8; 128] = any();
    obl!(eq128(&cc::init1024_real(b), &rows16(&spec::from_bytes::<16, 128>(&b))), "init1024_is_row_layout_of_iv");
}
g_parts!(c07_leaf_round512_part0, c07_lemma_submix1024_part0, 0; c07_leaf_round512_part1, c07_lemma_submix1024_part1, 1;
         c07_leaf_round512_part2, c07_lemma_submix1024_part2, 2; c07_leaf_round512_part3, c07_lemma_submix1024_part3, 3;
         c07_leaf_round512_part4, c07_lemma_submix1024_part4, 4; c07_leaf_round512_part5, c07_lemma_submix1024_part5, 5;
         c07_leaf_round512_part6, c07_lemma_submix1024_part6, 6; c07_leaf_round512_part7, c07_lemma_submix1024_part7, 7);
harness_x!(c07_lemma_submix1024, [kani::stub(core::arch::x86_64::_mm_aesenclast_si128, crate::models::mm_aesenclast_si128)], lemma_submix1024());
harness_x!(c07_wiring_tf1024, [kani::stub(groestl_aesni::compressor::submix, groestl_aesni::compressor::verif_incrate::submix_uf)], wiring_tf1024());
harness_x!(c07_wiring_of1024, [kani::stub(groestl_aesni::compressor::submix, groestl_aesni::compressor::verif_incrate::submix_uf)], wiring_of1024());

// ---------------------------------------------------------------- run-time dispatch
/// Every selectable wrapper (aes / ssse3 / sse2 modules, chosen through the lazy function-pointer
/// table from CPUID) forwards to the matching *_impl with unchanged arguments.
pub fn dispatch_forwarding(level: u8, aes: bool) {
    use digest::generic_array::GenericArray;
    crate::hmacros::set_cpu(level);
    unsafe { crate::models::CPU_AES = aes; cc::D_CALLS = 0; cc::D_WHICH = 0; }
    let sel: u8 = any();
    let cv64: [u8; 64] = any();
    let cv128: [u8; 128] = any();
    let pre = |n: usize, c: &[u8]| unsafe { let mut ok = true; let mut i = 0; while i < n { ok &= cc::UF_IN[0][i] == c[i]; i += 1; } ok };
    let post = |n: usize, o: &[u8]| unsafe { let mut ok = true; let mut i = 0; while i < n { ok &= cc::UF_OUT[0][i] == o[i]; i += 1; } ok };
    match sel {
        1 => { let d: [u8; 64] = any(); let o = cc::dispatch_tf512(cv64, GenericArray::from_slice(&d)); obl!(unsafe { cc::D_WHICH == 1 && cc::D_CALLS == 1 && cc::D_PTR_OK } && pre(64, &cv64) && post(64, &o), "tf512_forwards_to_tf512_impl"); }
        2 => { let o = cc::dispatch_of512(cv64); obl!(unsafe { cc::D_WHICH == 2 && cc::D_CALLS == 1 } && pre(64, &cv64) && post(64, &o), "of512_forwards_to_of512_impl"); }
        3 => { let o = cc::dispatch_init512(cv64); obl!(unsafe { cc::D_WHICH == 3 && cc::D_CALLS == 1 } && pre(64, &cv64) && post(64, &o), "init512_forwards_to_init512_impl"); }
        4 => { let d: [u8; 128] = any(); let o = cc::dispatch_tf1024(cv128, GenericArray::from_slice(&d)); obl!(unsafe { cc::D_WHICH == 4 && cc::D_CALLS == 1 && cc::D_PTR_OK } && pre(128, &cv128) && post(128, &o), "tf1024_forwards_to_tf1024_impl"); }
        5 => { let o = cc::dispatch_of1024(cv128); obl!(unsafe { cc::D_WHICH == 5 && cc::D_CALLS == 1 } && pre(128, &cv128) && post(128, &o), "of1024_forwards_to_of1024_impl"); }
        6 => { let o = cc::dispatch_init1024(cv128); obl!(unsafe { cc::D_WHICH == 6 && cc::D_CALLS == 1 } && pre(128, &cv128) && post(128, &o), "init1024_forwards_to_init1024_impl"); }
        _ => {}
    }
}
macro_rules! disp { ($($n:ident, $l:expr, $a:expr;)*) => {$(
    harness_x!($n, [kani::stub(groestl_aesni::compressor::tf512_impl, groestl_aesni::compressor::verif_incrate::tf512_impl_rec),
                    kani::stub(groestl_aesni::compressor::of512_impl, groestl_aesni::compressor::verif_incrate::of512_impl_rec),
                    kani::stub(groestl_aesni::compressor::init512_impl, groestl_aesni::compressor::verif_incrate::init512_impl_rec),
                    kani::stub(groestl_aesni::compressor::tf1024_impl, groestl_aesni::compressor::verif_incrate::tf1024_impl_rec),
                    kani::stub(groestl_aesni::compressor::of1024_impl, groestl_aesni::compressor::verif_incrate::of1024_impl_rec),
                    kani::stub(groestl_aesni::compressor::init1024_impl, groestl_aesni::compressor::verif_incrate::init1024_impl_rec)], dispatch_forwarding($l, $a));
)*}; }
disp! { c07_dispatch_sse2, 0, false; c07_dispatch_ssse3, 1, false; c07_dispatch_aes, 2, true; }
