// Skein process_block == one UBI step over Threefish (C05 obligation 2): the real private
// process_block (through the hook) with Threefish's MIX as uninterpreted function, against
//   t0' = t0 + add;  x' = E_{K = x, T = (t0', t1)}(block) xor block;  t1' = t1 with FIRST cleared
// where E is the Threefish specification (spec/threefish.rs, the same text C09 proves
// encrypt_block/with_tweak against) over the same uninterpreted MIX.
use crate::mixuf::{mix_uf, spec_mix, SPEC_K, UF_N};
use crate::nd::{self, any};
use crate::spec_threefish as spec;
use skein_hash::verif_incrate as ic;

const FIRST: u64 = 1 << 62;
macro_rules! ubi {
    ($name:ident, $real:ident, $nb:expr, $nw:expr, $ks:ident, $enc:ident, $calls:expr) => {
        pub fn $name() {
            let t: (u64, u64) = (any(), any());
            let x: [u8; $nb] = any();
            let block: [u8; $nb] = any();
            let add: usize = any();
            nd::assume(add <= $nb);
            nd::assume(t.0 <= u64::MAX - $nb as u64); // format limit of this implementation (C17)
            unsafe { UF_N = 0; SPEC_K = 0; }
            let (t2, x2) = ic::$real(t, &x, &block, add);
            obl!(unsafe { UF_N } == $calls, "one_threefish_encryption_per_block");
            let w = |b: &[u8; $nb]| { let mut o = [0u64; $nw]; let mut i = 0; while i < $nw {
                o[i] = u64::from_le_bytes([b[8 * i], b[8 * i + 1], b[8 * i + 2], b[8 * i + 3], b[8 * i + 4], b[8 * i + 5], b[8 * i + 6], b[8 * i + 7]]); i += 1; } o };
            let t0 = t.0 + add as u64;
            let sk = spec::$ks(w(&x), t0, t.1);
            let c = spec::$enc(&sk, w(&block), &mut |r, v| spec_mix(r, v));
            let bw = w(&block);
            let mut ok = true;
            let mut i = 0;
            while i < $nb { ok &= x2[i] == ((c[i / 8] ^ bw[i / 8]) >> (8 * (i % 8))) as u8; i += 1; }
            obl!(ok, "chaining_value_is_threefish_of_block_keyed_by_old_value_and_tweak_xor_block");
            obl!(t2.0 == t0 && t2.1 == t.1 & !FIRST, "position_advanced_and_first_flag_cleared");
        }
    };
}
ubi!(ubi256, process_block256_real, 32, 4, key_schedule_256, encrypt_256, 72 * 2);
ubi!(ubi512, process_block512_real, 64, 8, key_schedule_512, encrypt_512, 72 * 4);
ubi!(ubi1024, process_block1024_real, 128, 16, key_schedule_1024, encrypt_1024, 80 * 8);
harness_x!(c05_process_block256_is_ubi_step, [kani::stub(threefish_cipher::mix, crate::mixuf::mix_uf)], ubi256());
harness_x!(c05_process_block512_is_ubi_step, [kani::stub(threefish_cipher::mix, crate::mixuf::mix_uf)], ubi512());
harness_x!(c05_process_block1024_is_ubi_step, [kani::stub(threefish_cipher::mix, crate::mixuf::mix_uf)], ubi1024());
