// Harness crate for the hash crates: mode-of-operation contracts by ghost call-log (C04-C08, C17),
// compression-function cores (C04, C06) and their per-backend wiring (C03).
#![allow(non_camel_case_types, unused_imports, dead_code, static_mut_refs, clippy::all)]
#![recursion_limit = "1024"]
#[path = "../common/nd.rs"]
#[macro_use]
pub mod nd;
#[cfg(not(feature = "no_simd"))]
#[path = "../common/models.rs"]
pub mod models;
#[path = "../spec/blake.rs"]
pub mod spec_blake;
#[macro_use]
pub mod hmacros;
#[path = "../spec/blake_core.rs"]
pub mod spec_blake_core;
pub mod blake_core;
pub mod blake_mode;
pub mod groestl_mode;
#[path = "../spec/groestl.rs"]
pub mod spec_groestl;
#[cfg(not(feature = "no_simd"))]
pub mod groestl_core;
pub mod jh_mode;
pub mod jh_core;
#[path = "../spec/jh.rs"]
pub mod spec_jh;
pub mod jh_e8;
pub mod skein_mode;
#[path = "../spec/threefish.rs"]
pub mod spec_threefish;
#[path = "../common/mixuf.rs"]
pub mod mixuf;
pub mod skein_ubi;
