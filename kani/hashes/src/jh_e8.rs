// JH: the bit-sliced F8 equals the specification's nibble-oriented E8 (closes the assumption of
// DESIGN.md 4 C06).  Everything here is specification-level: the bit-slice formulation
//     round_B(y, k, r) = swap_{2^(r mod 7)} on the odd words of l_ref(ss_ref(y, k))
// is the one the crate's f8 is proved equal to (jh_core.rs: wiring with ss / l as uninterpreted
// functions + leaf contracts ss == ss_ref, l == l_ref, swaps by C12), and `spec_jh` is the JH
// document's E8.  They are related by a round-dependent layout: element e of the specification's
// state after r rounds sits at bit pos_r[e] of the words (par_r[e], 2 + par_r[e], 4 + .., 6 + ..).
// layout_0 is the grouping of section 3.2; layout_{r+1} is obtained from layout_r by following the
// specification's permutation P8 on one side and the swap on the other (computed, not guessed).
//   J1  decode_0(words(h)) == group(h), and degroup(decode_0(y)) gives back the bytes      (symbolic)
//   J2  for the seven layout classes: decode_{r+1}(round_B(y, k, r)) == R8(decode_r(y), selectors
//       decoded from k)                                                   (symbolic y, k: 1280 bits)
//   J3  for r = 0..41: the crate's bit-sliced round constant r decodes to the selector bits of the
//       specification's C_r (C_0 = sqrt(2) digits, C_r = R6(C_{r-1}))                     (concrete)
//   J4  layouts are well formed (pairs share a bit position, parity = index parity) and periodic
//       with period 7, so layout_42 == layout_0                                            (concrete)
// By induction over the 42 rounds (each step is J2 at the class r mod 7 with J3 for the constant)
// decode_0(F8_B(h, m)) == E8-with-message-xors of decode_0(h), and J1 turns that into bytes.
use crate::jh_core::{l_ref, ss_ref, swapn, W};
use crate::nd::{self, any};
use crate::spec_jh as spec;

#[derive(Clone, Copy)]
pub struct Layout { pub par: [u8; 256], pub pos: [u8; 256] }

fn bitpos(i: usize) -> u8 { (8 * (i >> 3) + (7 - (i & 7))) as u8 }
pub fn layout0() -> Layout {
    let mut l = Layout { par: [0; 256], pos: [0; 256] };
    let mut i = 0;
    while i < 128 {
        l.par[2 * i] = 0; l.pos[2 * i] = bitpos(i);
        l.par[2 * i + 1] = 1; l.pos[2 * i + 1] = bitpos(i);
        i += 1;
    }
    l
}
/// index into the pre-permutation array that the specification's P8 moves to position j
fn p8_source(j: usize) -> usize {
    // undo phi8, then P'8, then pi8
    let j1 = if j >= 128 { j ^ 1 } else { j };
    let t = if j1 < 128 { 2 * j1 } else { 2 * (j1 - 128) + 1 };
    if t % 4 >= 2 { t ^ 1 } else { t }
}
pub fn next_layout(l: &Layout, r: usize) -> Layout {
    let n = 1u8 << (r % 7);
    let mut o = Layout { par: [0; 256], pos: [0; 256] };
    let mut j = 0;
    while j < 256 {
        let s = p8_source(j);
        o.par[j] = l.par[s];
        o.pos[j] = if l.par[s] == 1 { l.pos[s] ^ n } else { l.pos[s] };
        j += 1;
    }
    o
}
pub fn layout_at(r: usize) -> Layout {
    let mut l = layout0();
    let mut k = 0;
    while k < r { l = next_layout(&l, k); k += 1; }
    l
}
#[inline(always)]
fn wbit(w: &W, p: u8) -> u8 { ((w[(p / 32) as usize] >> (p % 32)) & 1) as u8 }
pub fn decode(y: &[W; 8], l: &Layout) -> [u8; 256] {
    let mut a = [0u8; 256];
    let mut e = 0;
    while e < 256 {
        let (q, p) = (l.par[e] as usize, l.pos[e]);
        a[e] = (wbit(&y[q], p) << 3) | (wbit(&y[2 + q], p) << 2) | (wbit(&y[4 + q], p) << 1) | wbit(&y[6 + q], p);
        e += 1;
    }
    a
}
pub fn decode_sel(k: &[W; 2], l: &Layout) -> [u8; 256] {
    let mut s = [0u8; 256];
    let mut e = 0;
    while e < 256 { s[e] = wbit(&k[l.par[e] as usize], l.pos[e]); e += 1; }
    s
}
pub fn round_b(y: [W; 8], k: [W; 2], r: usize) -> [W; 8] {
    let mut y = l_ref(ss_ref(y, k));
    let n = 1u32 << (r % 7);
    y[1] = swapn(y[1], n); y[3] = swapn(y[3], n); y[5] = swapn(y[5], n); y[7] = swapn(y[7], n);
    y
}
fn words8(h: &[u8; 128]) -> [W; 8] {
    let mut y = [[0u32; 4]; 8];
    let mut i = 0;
    while i < 8 { y[i] = crate::jh_core::words(h, 16 * i); i += 1; }
    y
}
fn eq256(a: &[u8; 256], b: &[u8; 256]) -> bool { let mut ok = true; let mut i = 0; while i < 256 { ok &= a[i] == b[i]; i += 1; } ok }

pub fn j1_grouping() {
    let h: [u8; 128] = any();
    let l0 = layout0();
    let a = decode(&words8(&h), &l0);
    obl!(eq256(&a, &spec::group(&h)), "layout_0_is_the_specification_grouping");
    let back = spec::degroup(&a);
    let mut ok = true;
    let mut i = 0;
    while i < 128 { ok &= back[i] == h[i]; i += 1; }
    obl!(ok, "degrouping_inverts_grouping");
}
pub fn j2_round(class: usize) {
    let y: [W; 8] = any();
    let k: [W; 2] = any();
    let lr = layout_at(class);
    let ln = next_layout(&lr, class);
    let got = decode(&round_b(y, k, class), &ln);
    let exp = spec::round::<256>(decode(&y, &lr), decode_sel(&k, &lr));
    obl!(eq256(&got, &exp), "bitslice_round_equals_specification_round_under_the_layouts");
}
pub fn j3_constants() {
    let rc = jh_x86_64::compressor::verif_incrate::round_constants();
    let mut c = spec::constant0();
    let mut l = layout0();
    let mut ok = true;
    let mut r = 0;
    while r < 42 {
        let k = [crate::jh_core::words(&rc[r], 0), crate::jh_core::words(&rc[r], 16)];
        ok &= eq256(&decode_sel(&k, &l), &spec::selector_bits(&c));
        c = spec::next_constant(c);
        l = next_layout(&l, r);
        r += 1;
    }
    obl!(ok, "bitsliced_round_constants_decode_to_the_specification_constants");
}
/// J3 in six segments of seven rounds (the layouts are 7-periodic by J4, so segment s starts from layout 0);
/// the segments run in parallel, the unsplit harness stays in the thorough tier
pub fn j3_constants_seg(s: usize) {
    let rc = jh_x86_64::compressor::verif_incrate::round_constants();
    let mut c = spec::constant0();
    let mut r = 0;
    while r < 7 * s { c = spec::next_constant(c); r += 1; }
    let mut l = layout0();
    let mut ok = true;
    while r < 7 * s + 7 {
        let k = [crate::jh_core::words(&rc[r], 0), crate::jh_core::words(&rc[r], 16)];
        ok &= eq256(&decode_sel(&k, &l), &spec::selector_bits(&c));
        c = spec::next_constant(c);
        l = next_layout(&l, r);
        r += 1;
    }
    obl!(ok, "bitsliced_round_constants_decode_to_the_specification_constants");
}
pub fn j4_layouts() {
    let l0 = layout0();
    let mut l = l0;
    let mut ok = true;
    let mut bij = true;
    let mut r = 0;
    while r < 7 {
        let mut seen0 = [false; 128];
        let mut seen1 = [false; 128];
        let mut e = 0;
        while e < 256 {
            let p = l.pos[e] as usize;
            ok &= l.par[e] == (e & 1) as u8 && p < 128 && l.pos[e] == l.pos[e & !1];
            if e & 1 == 0 { bij &= !seen0[p]; seen0[p] = true; } else { bij &= !seen1[p]; seen1[p] = true; }
            e += 1;
        }
        l = next_layout(&l, r);
        r += 1;
    }
    obl!(ok, "layouts_pair_elements_2i_and_2i_plus_1_at_one_bit_position_in_even_and_odd_words");
    obl!(bij, "layouts_are_bijections");
    let mut per = true;
    let mut e = 0;
    while e < 256 { per &= l.par[e] == l0.par[e] && l.pos[e] == l0.pos[e]; e += 1; }
    obl!(per, "layout_is_periodic_with_period_7_hence_layout_42_is_layout_0");
}
harness_x!(c06_e8_j1_grouping, [], j1_grouping());
harness_x!(c06_e8_j2_round_class0, [], j2_round(0));
harness_x!(c06_e8_j2_round_class1, [], j2_round(1));
harness_x!(c06_e8_j2_round_class2, [], j2_round(2));
harness_x!(c06_e8_j2_round_class3, [], j2_round(3));
harness_x!(c06_e8_j2_round_class4, [], j2_round(4));
harness_x!(c06_e8_j2_round_class5, [], j2_round(5));
harness_x!(c06_e8_j2_round_class6, [], j2_round(6));
harness_x!(c06_e8_j3_constants, [], j3_constants());
harness_x!(c06_e8_j3_constants_seg0, [], j3_constants_seg(0));
harness_x!(c06_e8_j3_constants_seg1, [], j3_constants_seg(1));
harness_x!(c06_e8_j3_constants_seg2, [], j3_constants_seg(2));
harness_x!(c06_e8_j3_constants_seg3, [], j3_constants_seg(3));
harness_x!(c06_e8_j3_constants_seg4, [], j3_constants_seg(4));
harness_x!(c06_e8_j3_constants_seg5, [], j3_constants_seg(5));
harness_x!(c06_e8_j4_layouts, [], j4_layouts());
