// JH mode of operation (C06 obligation 1, C08, C17): update / finalize / default / reset / clone from
// an ARBITRARY state (symbolic 1024-bit chaining value, symbolic byte count consistent with the p
// pending bytes), with Compressor::input replaced by its contract stub.  Expected calls follow the
// JH specification (16 January 2011) section 5.1: a "1" bit, 384-1+(-l mod 512) zero bits, the
// 128-bit big-endian bit length (so one extra block for block-aligned messages, two otherwise), and
// section 5.4: the digest is the last n bits of the final 1024-bit state.
use crate::nd::{self, any};
use digest::generic_array::GenericArray;
use digest::{FixedOutputDirty, Reset, Update};
use jh_x86_64::verif_incrate as ic;
use jh_x86_64::verif_incrate::rec;
use jh_x86_64::{Jh224, Jh256, Jh384, Jh512};

pub trait JhTy: Default + Clone + Update + FixedOutputDirty + Reset {
    const OUT: usize;
    fn datalen(&mut self) -> usize;
    fn set_datalen(&mut self, n: usize);
    fn cv(&mut self) -> [u8; 128];
    fn set_cv(&mut self, cv: &[u8; 128]);
    fn pos(&mut self) -> usize;
}
macro_rules! jh {
    ($T:ident, $out:expr, $get:ident, $set:ident, $setd:ident) => {
        impl JhTy for $T {
            const OUT: usize = $out;
            fn datalen(&mut self) -> usize { ic::$get(self).0 as usize }
            fn set_datalen(&mut self, n: usize) { ic::$setd(self, n as u128) }
            fn cv(&mut self) -> [u8; 128] { ic::$get(self).1 }
            fn set_cv(&mut self, cv: &[u8; 128]) { ic::$set(self, cv) }
            fn pos(&mut self) -> usize { ic::$get(self).2 }
        }
    };
}
jh!(Jh224, 28, j224, j224_set_cv, j224_set_datalen);
jh!(Jh256, 32, j256, j256_set_cv, j256_set_datalen);
jh!(Jh384, 48, j384, j384_set_cv, j384_set_datalen);
jh!(Jh512, 64, j512, j512_set_cv, j512_set_datalen);

const B: usize = 64;
fn entry_is(k: usize, chain: &[u8; 128], block: &[u8; 64]) -> bool {
    unsafe {
        let mut ok = k < rec::N && rec::KIND[k] == 1;
        let mut i = 0;
        while i < 128 { ok &= rec::CV_IN[k][i] == chain[i]; i += 1; }
        let mut i = 0;
        while i < 64 { ok &= rec::BLOCK[k][i] == block[i]; i += 1; }
        ok
    }
}
fn out_of(k: usize) -> [u8; 128] { unsafe { rec::CV_OUT[k] } }

/// arbitrary state whose byte count is consistent with p pending bytes; `headroom` further bytes
/// keep the bit length below 2^64 (the limit of this implementation's 64-bit length arithmetic)
fn arbitrary_state<T: JhTy>(pending: &[u8; 64], p: usize, headroom: usize) -> (T, [u8; 128], usize) {
    let mut h = T::default();
    h.update(&pending[..p]);
    let cv: [u8; 128] = any();
    let blocks: usize = any();
    nd::assume(blocks <= ((1usize << 61) - 1 - 64 - headroom) / 64);
    let dl = blocks * 64 + p;
    h.set_cv(&cv);
    h.set_datalen(dl);
    (h, cv, dl)
}

pub fn chk_finalize<T: JhTy>(p: usize) {
    let pending: [u8; 64] = any();
    let (mut h, cv, dl) = arbitrary_state::<T>(&pending, p, 0);
    rec::reset();
    let mut out = GenericArray::default();
    h.finalize_into_dirty(&mut out);
    let bits: u128 = dl as u128 * 8;
    let mut blocks = [[0u8; 64]; 2];
    let mut i = 0;
    while i < p { blocks[0][i] = pending[i]; i += 1; }
    blocks[0][p] = 0x80;
    let n = if p == 0 { 1 } else { 2 };
    let mut i = 0;
    while i < 16 { blocks[n - 1][63 - i] = (bits >> (8 * i)) as u8; i += 1; }
    let mut chain = cv;
    let mut ok = true;
    let mut k = 0;
    while k < n {
        let blk: [u8; 64] = blocks[k];
        ok &= entry_is(k, &chain, &blk);
        if k < rec::count() { chain = out_of(k); }
        k += 1;
    }
    obl!(rec::count() == n, "one_padding_block_iff_block_aligned_else_two");
    obl!(ok, "padding_bit_length_and_chaining_as_specified");
    let mut okd = true;
    let mut i = 0;
    while i < T::OUT { okd &= out[i] == chain[128 - T::OUT + i]; i += 1; }
    obl!(okd, "digest_is_tail_of_final_state");
}

pub fn chk_update<T: JhTy>(p: usize, n: usize) {
    let pending: [u8; 64] = any();
    let data: [u8; 200] = any();
    let (mut h, cv, dl) = arbitrary_state::<T>(&pending, p, 200);
    rec::reset();
    h.update(&data[..n]);
    let q = p + n;
    let nblk = q / B;
    let byte_at = |i: usize| if i < p { pending[i] } else { data[i - p] };
    let mut chain = cv;
    let mut ok = true;
    let mut k = 0;
    while k < nblk {
        let mut blk = [0u8; 64];
        let mut i = 0;
        while i < B { blk[i] = byte_at(k * B + i); i += 1; }
        ok &= entry_is(k, &chain, &blk);
        if k < rec::count() { chain = out_of(k); }
        k += 1;
    }
    obl!(rec::count() == nblk, "update_compresses_exactly_the_complete_blocks");
    obl!(ok, "blocks_in_order_with_chaining");
    obl!(h.datalen() == dl + n, "byte_count_counts_absorbed_bytes_exactly");
    obl!(h.pos() == q % B, "pending_length_is_remainder");
    let hc = h.cv();
    let mut cv_ok = true;
    let mut i = 0; while i < 128 { cv_ok &= hc[i] == chain[i]; i += 1; }
    obl!(cv_ok, "chaining_value_is_result_of_last_block");
    let base = rec::count();
    let mut out = GenericArray::default();
    h.finalize_into_dirty(&mut out);
    let r = q % B;
    let mut pend_ok = rec::count() > base;
    let mut i = 0;
    while i < r { pend_ok &= unsafe { rec::BLOCK[base][i] } == byte_at(nblk * B + i); i += 1; }
    pend_ok &= unsafe { rec::BLOCK[base][r] } == 0x80;
    obl!(pend_ok, "pending_bytes_are_the_stream_remainder");
}

pub fn chk_default_reset<T: JhTy>() {
    let mut d = T::default();
    let dc = d.cv();
    obl!(d.datalen() == 0 && d.pos() == 0, "default_counter_and_buffer_empty");
    let pending: [u8; 64] = any();
    let (mut h, _cv, _dl) = arbitrary_state::<T>(&pending, 0, 0);
    if any::<bool>() { h.update(&pending[..5]); } // five pending bytes: nothing is compressed, the state stays arbitrary
    h.reset();
    let hc = h.cv();
    let mut ok = h.datalen() == 0 && h.pos() == 0;
    let mut i = 0; while i < 128 { ok &= hc[i] == dc[i]; i += 1; }
    obl!(ok, "reset_restores_default_state");
}
pub fn chk_clone<T: JhTy>(p: usize, n: usize) {
    let pending: [u8; 64] = any();
    let data: [u8; 200] = any();
    let (mut h, cv, dl) = arbitrary_state::<T>(&pending, p, 200);
    let mut cl = h.clone();
    rec::reset();
    cl.update(&data[..n]);
    let hc = h.cv();
    let mut ok = h.datalen() == dl && h.pos() == p;
    let mut i = 0; while i < 128 { ok &= hc[i] == cv[i]; i += 1; }
    obl!(ok, "original_unchanged_by_operations_on_clone");
    let base = rec::count();
    let mut out = GenericArray::default();
    h.finalize_into_dirty(&mut out);
    let mut pend_ok = rec::count() > base;
    let mut i = 0;
    while i < p { pend_ok &= unsafe { rec::BLOCK[base][i] } == pending[i]; i += 1; }
    obl!(pend_ok, "original_pending_bytes_unchanged");
}
include!("jh_shapes.rs");
