// harness_x!(name, [extra stub attributes], body): proof harness with the instruction/CPUID models.
#[cfg(all(kani, not(feature = "no_simd")))]
#[macro_export]
macro_rules! harness_x {
    ($name:ident, [$($extra:meta),*], $body:expr) => {
        #[kani::proof]
        $(#[$extra])*
        #[kani::stub(core::arch::x86_64::_mm_shuffle_epi8, crate::models::mm_shuffle_epi8)]
        #[kani::stub(core::arch::x86_64::_mm_load_si128, crate::models::forbid_mm_load_si128)]
        #[kani::stub(core::arch::x86_64::_mm_store_si128, crate::models::forbid_mm_store_si128)]
        #[kani::stub(core::arch::x86_64::_mm256_load_si256, crate::models::forbid_mm256_load_si256)]
        #[kani::stub(core::arch::x86_64::_mm256_store_si256, crate::models::forbid_mm256_store_si256)]
        #[kani::stub(core::arch::x86_64::_mm_stream_si128, crate::models::forbid_mm_stream_si128)]
        #[kani::stub(core::arch::x86_64::_mm256_shuffle_epi8, crate::models::mm256_shuffle_epi8)]
        #[kani::stub(core::arch::x86_64::_mm_packus_epi16, crate::models::mm_packus_epi16)]
        #[kani::stub(core::arch::x86_64::_mm_add_epi8, crate::models::mm_add_epi8)]
        #[kani::stub(core::arch::x86_64::_mm_add_epi32, crate::models::mm_add_epi32)]
        #[kani::stub(core::arch::x86_64::_mm_add_epi64, crate::models::mm_add_epi64)]
        #[kani::stub(core::arch::x86_64::_mm256_add_epi32, crate::models::mm256_add_epi32)]
        #[kani::stub(core::arch::x86_64::_mm256_zeroupper, crate::models::mm256_zeroupper)]
        #[kani::stub(core::arch::x86_64::__cpuid_count, crate::models::cpuid_count)]
        #[kani::stub(core::arch::x86_64::__cpuid, crate::models::cpuid)]
        #[kani::stub(core::arch::x86_64::_xgetbv, crate::models::xgetbv)]
        pub fn $name() {
            $body
        }
    };
}
#[cfg(all(kani, feature = "no_simd"))]
#[macro_export]
macro_rules! harness_x {
    ($name:ident, [$($extra:meta),*], $body:expr) => {
        #[kani::proof]
        $(#[$extra])*
        pub fn $name() {
            $body
        }
    };
}
#[cfg(not(kani))]
#[macro_export]
macro_rules! harness_x {
    ($name:ident, [$($extra:meta),*], $body:expr) => {
        pub fn $name() {
            $body
        }
    };
}
#[cfg(all(kani, not(feature = "no_simd")))]
pub fn set_cpu(level: u8) {
    unsafe { crate::models::CPU_LEVEL = level; }
}
#[cfg(not(all(kani, not(feature = "no_simd"))))]
pub fn set_cpu(_level: u8) {}
