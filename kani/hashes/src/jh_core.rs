// JH F8 (C06 obligations 2-3, C03): leaf contracts of the bit-sliced S-box layer `ss` and linear
// layer `l` per backend against their scalar 128-bit-word transcription, and the wiring of
// Compressor::input -- through the real dispatch! arms on a modelled CPU -- with ss / l as
// uninterpreted functions: message XOR into the first half before and the second half after, 42
// rounds, round constant r as the S-box selector, swap schedule swap{1,2,4,8,16,32,64}[r mod 7] on
// the odd words.  NOT covered (assumed, DESIGN.md 4 C06): that this bit-sliced F8 equals the
// specification's nibble-oriented E8, and the round-constant table itself (taken from the crate).
use crate::hmacros::set_cpu;
use crate::nd::{self, any};
use digest::generic_array::GenericArray;
use jh_x86_64::compressor::verif_incrate as cc;
use jh_x86_64::compressor::Compressor;
use ppv_lite86::Machine;

pub type W = [u32; 4];
fn x(a: W, b: W) -> W { [a[0] ^ b[0], a[1] ^ b[1], a[2] ^ b[2], a[3] ^ b[3]] }
fn n(a: W, b: W) -> W { [a[0] & b[0], a[1] & b[1], a[2] & b[2], a[3] & b[3]] }
fn o(a: W, b: W) -> W { [a[0] | b[0], a[1] | b[1], a[2] | b[2], a[3] | b[3]] }
fn nt(a: W) -> W { [!a[0], !a[1], !a[2], !a[3]] }

/// scalar transcription of the bit-sliced S-box layer on one of the two interleaved halves
fn ss_half(m0: W, m1: W, m2: W, m3: W, k: W) -> (W, W, W, W) {
    let (mut m0, mut m1, mut m2, mut m3, mut k) = (m0, m1, m2, m3, k);
    m3 = nt(m3);
    m0 = x(m0, n(nt(m2), k));
    k = x(k, n(m0, m1));
    m0 = x(m0, n(m3, m2));
    m3 = x(m3, n(nt(m1), m2));
    m1 = x(m1, n(m0, m2));
    m2 = x(m2, n(nt(m3), m0));
    m0 = x(m0, o(m1, m3));
    m3 = x(m3, n(m1, m2));
    m2 = x(m2, k);
    m1 = x(m1, n(k, m0));
    (m0, m1, m2, m3)
}
pub fn ss_ref(s: [W; 8], k: [W; 2]) -> [W; 8] {
    let (a0, a1, a2, a3) = ss_half(s[0], s[2], s[4], s[6], k[0]);
    let (b0, b1, b2, b3) = ss_half(s[1], s[3], s[5], s[7], k[1]);
    [a0, b0, a1, b1, a2, b2, a3, b3]
}
pub fn l_ref(y: [W; 8]) -> [W; 8] {
    let mut y = y;
    y[1] = x(y[1], y[2]);
    y[3] = x(y[3], y[4]);
    y[5] = x(y[5], x(y[6], y[0]));
    y[7] = x(y[7], y[0]);
    y[0] = x(y[0], y[3]);
    y[2] = x(y[2], y[5]);
    y[4] = x(y[4], x(y[7], y[1]));
    y[6] = x(y[6], y[1]);
    y
}
pub fn eq8(a: [W; 8], b: [W; 8]) -> bool {
    let mut ok = true;
    let mut i = 0;
    while i < 8 { ok &= a[i] == b[i]; i += 1; }
    ok
}
pub fn leaf<M: Machine>() {
    let s: [W; 8] = any();
    let sel: u8 = any();
    match sel {
        0 => { let k: [W; 2] = any(); obl!(eq8(cc::ss_real::<M>(s, k), ss_ref(s, k)), "ss_equals_scalar_bitslice_sbox_layer"); }
        1 => obl!(eq8(cc::l_real::<M>(s), l_ref(s)), "l_equals_scalar_linear_layer"),
        _ => {}
    }
}

pub fn swapn(w: W, nbits: u32) -> W {
    let v = (w[0] as u128) | ((w[1] as u128) << 32) | ((w[2] as u128) << 64) | ((w[3] as u128) << 96);
    let mut m = 0u128;
    let mut i = 0;
    while i < 128 { m |= (if nbits >= 128 { !0 } else { (1u128 << nbits) - 1 }) << i; i += 2 * nbits; }
    let r = ((v & m) << nbits) | ((v >> nbits) & m);
    [r as u32, (r >> 32) as u32, (r >> 64) as u32, (r >> 96) as u32]
}
pub fn words(b: &[u8], off: usize) -> W {
    let g = |i: usize| u32::from_le_bytes([b[off + i], b[off + i + 1], b[off + i + 2], b[off + i + 3]]);
    [g(0), g(4), g(8), g(12)]
}

pub fn f8_wiring(level: u8) {
    set_cpu(level);
    unsafe { cc::F8_N = 0; }
    let st: [u8; 128] = any();
    let block: [u8; 64] = any();
    let mut c = Compressor::new(st);
    c.input(GenericArray::from_slice(&block));
    let out = c.finalize();
    obl!(unsafe { cc::F8_N } == 84, "42_rounds_of_sbox_layer_then_linear_layer");
    // specification wiring over the logged uninterpreted calls
    let mut y = [[0u32; 4]; 8];
    let mut i = 0;
    while i < 8 { y[i] = words(&st, 16 * i); i += 1; }
    let d = [words(&block, 0), words(&block, 16), words(&block, 32), words(&block, 48)];
    let mut i = 0;
    while i < 4 { y[i] = x(y[i], d[i]); i += 1; }
    let rc = cc::round_constants();
    let mut ok = true;
    let mut r = 0;
    while r < 42 {
        unsafe {
            let k0 = words(&rc[r], 0);
            let k1 = words(&rc[r], 16);
            ok &= cc::F8_KIND[2 * r] == 1 && eq8(cc::F8_IN[2 * r], y) && cc::F8_K[2 * r][0] == k0 && cc::F8_K[2 * r][1] == k1;
            y = cc::F8_OUT[2 * r];
            ok &= cc::F8_KIND[2 * r + 1] == 2 && eq8(cc::F8_IN[2 * r + 1], y);
            y = cc::F8_OUT[2 * r + 1];
        }
        let nb = 1u32 << (r % 7);
        y[1] = swapn(y[1], nb);
        y[3] = swapn(y[3], nb);
        y[5] = swapn(y[5], nb);
        y[7] = swapn(y[7], nb);
        r += 1;
    }
    obl!(ok, "every_round_gets_the_spec_state_and_round_constant");
    let mut i = 0;
    while i < 4 { y[4 + i] = x(y[4 + i], d[i]); i += 1; }
    let mut okf = true;
    let mut i = 0;
    while i < 8 { okf &= words(&out, 16 * i) == y[i]; i += 1; }
    obl!(okf, "final_state_equals_spec_wiring");
}

macro_rules! backend_leaf { ($modname:ident, $M:ty) => { pub mod $modname { use super::*; harness_x!(c06_ss_l_leaf, [], leaf::<$M>()); } }; }
#[cfg(not(feature = "no_simd"))]
backend_leaf!(sse2, ppv_lite86::x86_64::SSE2);
#[cfg(not(feature = "no_simd"))]
backend_leaf!(ssse3, ppv_lite86::x86_64::SSSE3);
#[cfg(not(feature = "no_simd"))]
backend_leaf!(sse41, ppv_lite86::x86_64::SSE41);
#[cfg(not(feature = "no_simd"))]
backend_leaf!(avx2, ppv_lite86::x86_64::AVX2);
#[cfg(feature = "no_simd")]
backend_leaf!(generic, ppv_lite86::generic::GenericMachine);

pub mod wiring {
    use super::*;
    macro_rules! w { ($($n:ident, $l:expr;)*) => {$(
        harness_x!($n, [kani::stub(jh_x86_64::compressor::ss, jh_x86_64::compressor::verif_incrate::ss_uf),
                        kani::stub(jh_x86_64::compressor::l, jh_x86_64::compressor::verif_incrate::l_uf)], f8_wiring($l));
    )*}; }
    #[cfg(not(feature = "no_simd"))]
    w! { c06_f8_wiring_l0, 0; c06_f8_wiring_l1, 1; c06_f8_wiring_l2, 2; c06_f8_wiring_l3, 3; c06_f8_wiring_l4, 4; }
    #[cfg(feature = "no_simd")]
    w! { c06_f8_wiring_gen, 0; }
}

// ---- initial values (JH specification section 5.2): H(0) = F8(H(-1), M(0)) with H(-1) = digest size in
//      bits as a 16-bit big-endian integer followed by zeros, M(0) = 0.  Concrete evaluation of the real
//      f8 (no search): pins the four JHxxx_H0 constants to the compression function.
pub fn iv_contract() {
    use crate::jh_mode::JhTy;
    use jh_x86_64::{Jh224, Jh256, Jh384, Jh512};
    set_cpu(4);
    let zero = [0u8; 64];
    let f = |bits: u16| {
        let mut h = [0u8; 128];
        h[0] = (bits >> 8) as u8;
        h[1] = bits as u8;
        let mut c = Compressor::new(h);
        c.input(GenericArray::from_slice(&zero));
        c.finalize()
    };
    let mut ok = true;
    let (a, b, c, d) = (Jh224::default().cv(), Jh256::default().cv(), Jh384::default().cv(), Jh512::default().cv());
    let (ea, eb, ec, ed) = (f(224), f(256), f(384), f(512));
    let mut i = 0;
    while i < 128 { ok &= a[i] == ea[i] && b[i] == eb[i] && c[i] == ec[i] && d[i] == ed[i]; i += 1; }
    obl!(ok, "initial_values_are_f8_of_digest_size_block");
}
harness_x!(c06_iv_contract, [], iv_contract());
