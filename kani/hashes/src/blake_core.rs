// BLAKE compression function (C04 obligations 1-2, C03): leaf contracts of round32/round64 and of
// (un)diagonalize per backend, the specification lemma (document formulation == row formulation for
// a full round), and the wiring of Compressor*::put_block -- run through the real dispatch! arms on
// a modelled CPU -- against the row-formulation specification with the round layer as
// uninterpreted function: big-endian message words, sigma schedule, m ^ c pairing, counter words,
// 14/16 rounds, feed-forward.
use crate::hmacros::set_cpu;
use crate::nd::{self, any};
use crate::spec_blake_core as spec;
use blake_hash::verif_incrate as ic;
use digest::generic_array::GenericArray;
use ppv_lite86::*;

fn to32<M: Machine>(v: M::u32x4) -> [u32; 4] { let s: vec128_storage = v.into(); s.into() }
fn from32<M: Machine>(w: [u32; 4]) -> M::u32x4 { unsafe { M::instance() }.unpack(vec128_storage::from(w)) }
fn to64<M: Machine>(v: M::u64x4) -> [u64; 4] { let s: vec256_storage = v.into(); s.into() }
fn from64<M: Machine>(w: [u64; 4]) -> M::u64x4 { unsafe { M::instance() }.unpack(vec256_storage::from(w)) }

pub fn round32_contract<M: Machine>() {
    let r: spec::Rows32 = any();
    let (x, y): ([u32; 4], [u32; 4]) = (any(), any());
    let o = ic::round32::<M>((from32::<M>(r[0]), from32::<M>(r[1]), from32::<M>(r[2]), from32::<M>(r[3])), from32::<M>(x), from32::<M>(y));
    let e = spec::round_rows32(r, x, y);
    obl!(to32::<M>(o.0) == e[0] && to32::<M>(o.1) == e[1] && to32::<M>(o.2) == e[2] && to32::<M>(o.3) == e[3], "round32_equals_four_parallel_G");
}
pub fn round64_contract<M: Machine>() {
    let r: spec::Rows64 = any();
    let (x, y): ([u64; 4], [u64; 4]) = (any(), any());
    let o = ic::round64::<M>((from64::<M>(r[0]), from64::<M>(r[1]), from64::<M>(r[2]), from64::<M>(r[3])), from64::<M>(x), from64::<M>(y));
    let e = spec::round_rows64(r, x, y);
    obl!(to64::<M>(o.0) == e[0] && to64::<M>(o.1) == e[1] && to64::<M>(o.2) == e[2] && to64::<M>(o.3) == e[3], "round64_equals_four_parallel_G");
}
fn rot<T: Copy + Default>(v: [T; 4], k: usize) -> [T; 4] { let mut o = [T::default(); 4]; let mut j = 0; while j < 4 { o[(j + k) % 4] = v[j]; j += 1; } o }
pub fn diag32_contract<M: Machine>() {
    let r: spec::Rows32 = any();
    let sel: u8 = any();
    let s = (from32::<M>(r[0]), from32::<M>(r[1]), from32::<M>(r[2]), from32::<M>(r[3]));
    match sel {
        0 => { let o = ic::diagonalize(s); obl!(to32::<M>(o.0) == rot(r[0], 1) && to32::<M>(o.1) == r[1] && to32::<M>(o.2) == rot(r[2], 3) && to32::<M>(o.3) == rot(r[3], 2), "diagonalize_rows"); }
        1 => { let o = ic::undiagonalize(s); obl!(to32::<M>(o.0) == rot(r[0], 3) && to32::<M>(o.1) == r[1] && to32::<M>(o.2) == rot(r[2], 1) && to32::<M>(o.3) == rot(r[3], 2), "undiagonalize_rows"); }
        _ => {}
    }
}
pub fn diag64_contract<M: Machine>() {
    let r: spec::Rows64 = any();
    let sel: u8 = any();
    let s = (from64::<M>(r[0]), from64::<M>(r[1]), from64::<M>(r[2]), from64::<M>(r[3]));
    match sel {
        0 => { let o = ic::diagonalize(s); obl!(to64::<M>(o.0) == rot(r[0], 1) && to64::<M>(o.1) == r[1] && to64::<M>(o.2) == rot(r[2], 3) && to64::<M>(o.3) == rot(r[3], 2), "diagonalize_rows"); }
        1 => { let o = ic::undiagonalize(s); obl!(to64::<M>(o.0) == rot(r[0], 3) && to64::<M>(o.1) == r[1] && to64::<M>(o.2) == rot(r[2], 1) && to64::<M>(o.3) == rot(r[3], 2), "undiagonalize_rows"); }
        _ => {}
    }
}

// ---- uninterpreted round layer ----
pub const MAXC: usize = 40;
pub static mut L32_IN: [([[u32; 4]; 4], [u32; 4], [u32; 4]); MAXC] = [([[0; 4]; 4], [0; 4], [0; 4]); MAXC];
pub static mut L32_OUT: [[[u32; 4]; 4]; MAXC] = [[[0; 4]; 4]; MAXC];
pub static mut L64_IN: [([[u64; 4]; 4], [u64; 4], [u64; 4]); MAXC] = [([[0; 4]; 4], [0; 4], [0; 4]); MAXC];
pub static mut L64_OUT: [[[u64; 4]; 4]; MAXC] = [[[0; 4]; 4]; MAXC];
pub static mut LN: usize = 0;
pub static mut SK: usize = 0;
pub fn round32_uf<M: Machine>(s: (M::u32x4, M::u32x4, M::u32x4, M::u32x4), m0: M::u32x4, m1: M::u32x4) -> (M::u32x4, M::u32x4, M::u32x4, M::u32x4) {
    unsafe {
        let k = LN;
        assert!(k < MAXC);
        L32_IN[k] = ([to32::<M>(s.0), to32::<M>(s.1), to32::<M>(s.2), to32::<M>(s.3)], to32::<M>(m0), to32::<M>(m1));
        let o: [[u32; 4]; 4] = any();
        L32_OUT[k] = o;
        LN = k + 1;
        (from32::<M>(o[0]), from32::<M>(o[1]), from32::<M>(o[2]), from32::<M>(o[3]))
    }
}
pub fn round64_uf<M: Machine>(s: (M::u64x4, M::u64x4, M::u64x4, M::u64x4), m0: M::u64x4, m1: M::u64x4) -> (M::u64x4, M::u64x4, M::u64x4, M::u64x4) {
    unsafe {
        let k = LN;
        assert!(k < MAXC);
        L64_IN[k] = ([to64::<M>(s.0), to64::<M>(s.1), to64::<M>(s.2), to64::<M>(s.3)], to64::<M>(m0), to64::<M>(m1));
        let o: [[u64; 4]; 4] = any();
        L64_OUT[k] = o;
        LN = k + 1;
        (from64::<M>(o[0]), from64::<M>(o[1]), from64::<M>(o[2]), from64::<M>(o[3]))
    }
}
fn spec32(r: spec::Rows32, x: [u32; 4], y: [u32; 4]) -> spec::Rows32 {
    unsafe {
        let k = SK;
        SK += 1;
        assert!(k < LN, "OBL ?round_call_exists");
        let (ri, xi, yi) = L32_IN[k];
        assert!(ri == r, "OBL ?round_state_argument_matches_spec");
        assert!(xi == x && yi == y, "OBL ?round_message_words_match_sigma_schedule");
        L32_OUT[k]
    }
}
fn spec64(r: spec::Rows64, x: [u64; 4], y: [u64; 4]) -> spec::Rows64 {
    unsafe {
        let k = SK;
        SK += 1;
        assert!(k < LN, "OBL ?round_call_exists");
        let (ri, xi, yi) = L64_IN[k];
        assert!(ri == r, "OBL ?round_state_argument_matches_spec");
        assert!(xi == x && yi == y, "OBL ?round_message_words_match_sigma_schedule");
        L64_OUT[k]
    }
}

pub fn put_block256_wiring(level: u8) {
    set_cpu(level);
    unsafe { LN = 0; SK = 0; }
    let h: [u32; 8] = any();
    let block: [u8; 64] = any();
    let t: (u32, u32) = (any(), any());
    let mut c = ic::new256(h);
    ic::put_block256(&mut c, GenericArray::from_slice(&block), t);
    obl!(unsafe { LN } == 28, "two_round_layers_per_round_14_rounds");
    let mut m = [0u32; 16];
    let mut i = 0;
    while i < 16 { m[i] = u32::from_be_bytes([block[4 * i], block[4 * i + 1], block[4 * i + 2], block[4 * i + 3]]); i += 1; }
    let e = spec::compress_rows32(h, &m, t, &mut |r, x, y| spec32(r, x, y));
    obl!(ic::h256(&c) == e, "chaining_value_equals_spec_compression");
}
pub fn put_block512_wiring(level: u8) {
    set_cpu(level);
    unsafe { LN = 0; SK = 0; }
    let h: [u64; 8] = any();
    let block: [u8; 128] = any();
    let t: (u64, u64) = (any(), any());
    let mut c = ic::new512(h);
    ic::put_block512(&mut c, GenericArray::from_slice(&block), t);
    obl!(unsafe { LN } == 32, "two_round_layers_per_round_16_rounds");
    let mut m = [0u64; 16];
    let mut i = 0;
    while i < 16 {
        m[i] = u64::from_be_bytes([block[8 * i], block[8 * i + 1], block[8 * i + 2], block[8 * i + 3], block[8 * i + 4], block[8 * i + 5], block[8 * i + 6], block[8 * i + 7]]);
        i += 1;
    }
    let e = spec::compress_rows64(h, &m, t, &mut |r, x, y| spec64(r, x, y));
    obl!(ic::h512(&c) == e, "chaining_value_equals_spec_compression");
}
/// Compressor::finalize == big-endian words of h (through dispatch_light256!)
pub fn finalize_contract(level: u8) {
    set_cpu(level);
    let sel: u8 = any();
    match sel {
        0 => {
            let h: [u32; 8] = any();
            let o = ic::finalize256(ic::new256(h));
            let mut ok = true;
            let mut i = 0;
            while i < 32 { ok &= o[i] == (h[i / 4] >> (8 * (3 - i % 4))) as u8; i += 1; }
            obl!(ok, "finalize256_big_endian_words");
        }
        1 => {
            let h: [u64; 8] = any();
            let o = ic::finalize512(ic::new512(h));
            let mut ok = true;
            let mut i = 0;
            while i < 64 { ok &= o[i] == (h[i / 8] >> (8 * (7 - i % 8))) as u8; i += 1; }
            obl!(ok, "finalize512_big_endian_words");
        }
        _ => {}
    }
}

// Backend-free lemma: a full round in the document's formulation equals the row formulation, for
// every state, message and each of the ten sigma rows (real G).
harness_x!(c04_lemma_round32, [], {
    let v: [u32; 16] = any();
    let m: [u32; 16] = any();
    let r: usize = any();
    nd::assume(r < 10);
    let a = spec::round_std32(v, &m, r);
    let rows = [[v[0], v[1], v[2], v[3]], [v[4], v[5], v[6], v[7]], [v[8], v[9], v[10], v[11]], [v[12], v[13], v[14], v[15]]];
    let b = spec::round_b32(rows, &m, r, &mut |rr, x, y| spec::round_rows32(rr, x, y));
    let mut ok = true;
    let mut i = 0;
    while i < 16 { ok &= a[i] == b[i / 4][i % 4]; i += 1; }
    obl!(ok, "document_round_equals_row_formulation");
});
harness_x!(c04_lemma_round64, [], {
    let v: [u64; 16] = any();
    let m: [u64; 16] = any();
    let r: usize = any();
    nd::assume(r < 10);
    let a = spec::round_std64(v, &m, r);
    let rows = [[v[0], v[1], v[2], v[3]], [v[4], v[5], v[6], v[7]], [v[8], v[9], v[10], v[11]], [v[12], v[13], v[14], v[15]]];
    let b = spec::round_b64(rows, &m, r, &mut |rr, x, y| spec::round_rows64(rr, x, y));
    let mut ok = true;
    let mut i = 0;
    while i < 16 { ok &= a[i] == b[i / 4][i % 4]; i += 1; }
    obl!(ok, "document_round_equals_row_formulation");
});

macro_rules! backend_leaf {
    ($modname:ident, $M:ty) => {
        pub mod $modname {
            use super::*;
            harness_x!(c04_round32, [], round32_contract::<$M>());
            harness_x!(c04_round64, [], round64_contract::<$M>());
            harness_x!(c04_diag32, [], diag32_contract::<$M>());
            harness_x!(c04_diag64, [], diag64_contract::<$M>());
        }
    };
}
#[cfg(not(feature = "no_simd"))]
backend_leaf!(sse2, ppv_lite86::x86_64::SSE2);
#[cfg(not(feature = "no_simd"))]
backend_leaf!(ssse3, ppv_lite86::x86_64::SSSE3);
#[cfg(not(feature = "no_simd"))]
backend_leaf!(sse41, ppv_lite86::x86_64::SSE41);
#[cfg(not(feature = "no_simd"))]
backend_leaf!(avx2, ppv_lite86::x86_64::AVX2);
#[cfg(feature = "no_simd")]
backend_leaf!(generic, ppv_lite86::generic::GenericMachine);

pub mod wiring {
    use super::*;
    macro_rules! w { ($($n256:ident, $n512:ident, $nf:ident, $l:expr;)*) => {$(
        harness_x!($n256, [kani::stub(blake_hash::round32, crate::blake_core::round32_uf)], put_block256_wiring($l));
        harness_x!($n512, [kani::stub(blake_hash::round64, crate::blake_core::round64_uf)], put_block512_wiring($l));
        harness_x!($nf, [], finalize_contract($l));
    )*}; }
    #[cfg(not(feature = "no_simd"))]
    w! { c04_put_block256_l0, c04_put_block512_l0, c04_finalize_l0, 0; c04_put_block256_l1, c04_put_block512_l1, c04_finalize_l1, 1;
         c04_put_block256_l2, c04_put_block512_l2, c04_finalize_l2, 2; c04_put_block256_l3, c04_put_block512_l3, c04_finalize_l3, 3;
         c04_put_block256_l4, c04_put_block512_l4, c04_finalize_l4, 4; }
    #[cfg(feature = "no_simd")]
    w! { c04_put_block256_gen, c04_put_block512_gen, c04_finalize_gen, 0; }
}
