// Contracts of the stream-cipher layer (C02, C11, C01 obligations 5-6): representation invariant
// Inv(P) on Buffer and one contract per public operation, each proved from an ARBITRARY state
// satisfying Inv (symbolic counter, buffer contents, data), for concrete (have, length) shapes.
// ChaCha::refill / refill4 are replaced by their own contracts (proved in wiring.rs): "emit the block
// of the current counter, advance the 64-bit counter by 1 (4), touch nothing else" over a symbolic
// keystream table KS[k] = block(counter0 + k).
use crate::nd::{self, any};
use c2_chacha::guts::ChaCha;
use c2_chacha::verif_incrate as ic;
use c2_chacha::{ChaCha12, ChaCha20, ChaCha8, Ietf, XChaCha12, XChaCha20, XChaCha8};
use cipher::generic_array::GenericArray;
use cipher::{NewCipher, StreamCipher, StreamCipherSeek};

pub const KROWS: usize = 8;
pub static mut KS: [[u8; 64]; KROWS] = [[0; 64]; KROWS];
pub static mut NEXT: usize = 0;
pub static mut CTR0: u64 = 0; // value of stream param 0 expected at the first refill
pub static mut EXP_DR: u32 = 0;

/// Contract stub of ChaCha::refill
pub fn refill_contract(s: &mut ChaCha, drounds: u32, out: &mut [u8; 64]) {
    unsafe {
        let k = NEXT;
        assert!(k < KROWS, "OBL ?refill_calls_within_expected_number");
        assert!(drounds == EXP_DR, "OBL ?double_rounds_as_declared_by_type");
        assert!(s.get_stream_param(0) == CTR0.wrapping_add(k as u64), "OBL ?refill_at_consecutive_counter");
        *out = KS[k];
        s.set_stream_param(0, s.get_stream_param(0).wrapping_add(1));
        NEXT = k + 1;
    }
}
/// Contract stub of ChaCha::refill4
pub fn refill4_contract(s: &mut ChaCha, drounds: u32, out: &mut [u8; 256]) {
    unsafe {
        let k = NEXT;
        assert!(k + 4 <= KROWS, "OBL ?refill_calls_within_expected_number");
        assert!(drounds == EXP_DR, "OBL ?double_rounds_as_declared_by_type");
        assert!(s.get_stream_param(0) == CTR0.wrapping_add(k as u64), "OBL ?refill_at_consecutive_counter");
        let mut j = 0;
        while j < 4 {
            let mut i = 0;
            while i < 64 {
                out[64 * j + i] = KS[k + j][i];
                i += 1;
            }
            j += 1;
        }
        s.set_stream_param(0, s.get_stream_param(0).wrapping_add(4));
        NEXT = k + 4;
    }
}

pub trait Variant: StreamCipher + StreamCipherSeek + Sized {
    const IETF: bool;
    const DR: u32;
    fn make(key: &[u8; 32]) -> Self;
    fn buf(&mut self) -> BufView<'_>;
}
pub struct BufView<'a> {
    pub state: &'a mut ChaCha,
    pub out: &'a mut [u8; 64],
    pub have: &'a mut i8,
    pub len: &'a mut u64,
    pub fresh: &'a mut bool,
}
macro_rules! variant {
    ($T:ty, $ietf:expr, $dr:expr, $nl:expr) => {
        impl Variant for $T {
            const IETF: bool = $ietf;
            const DR: u32 = $dr;
            fn make(key: &[u8; 32]) -> Self {
                let nonce = [0u8; $nl];
                <$T as NewCipher>::new(GenericArray::from_slice(key), GenericArray::from_slice(&nonce))
            }
            fn buf(&mut self) -> BufView<'_> {
                let b = &mut self.state;
                BufView { state: &mut b.state, out: &mut b.out, have: &mut b.have, len: &mut b.len, fresh: &mut b.fresh }
            }
        }
    };
}
variant!(ChaCha20, false, 10, 8);
variant!(ChaCha12, false, 6, 8);
variant!(ChaCha8, false, 4, 8);
variant!(Ietf, true, 10, 12);
variant!(XChaCha20, false, 10, 24);
variant!(XChaCha12, false, 6, 24);
variant!(XChaCha8, false, 4, 24);

/// Abstract state: blocks generated so far (0..=CAP), as u128, and the stream-id / nonce words.
pub struct Abs {
    pub ctr: u128,
    pub d1: u32,
    pub d2: u32,
    pub d3: u32,
}
pub const CAP32: u128 = 1 << 32;
pub const CAP64: u128 = 1 << 64;

/// Put the cipher into an arbitrary state satisfying Inv with concrete `have`; returns the abstract view.
pub fn arbitrary_inv_state<C: Variant>(c: &mut C, have: i8, out0: [u8; 64]) -> Abs {
    let dwords: [u32; 4] = any();
    let (d1, d2, d3) = (dwords[1], dwords[2], dwords[3]);
    let b = c.buf();
    *b.have = have;
    *b.out = out0;
    let ctr: u128;
    if C::IETF {
        let n: u64 = any();
        nd::assume(n <= 1 << 32);
        nd::assume(have <= 0 || n >= 1);
        nd::assume(have >= 0 || n < 1 << 32);
        *b.len = (1u64 << 32) - n;
        *b.fresh = false;
        // d[0] = counter mod 2^32, d[1] = first nonce word
        b.state.set_stream_param(0, ((d1 as u64) << 32) | (n & 0xffff_ffff));
        ctr = n as u128;
    } else {
        let n: u64 = any();
        let exhausted: bool = any();
        let fresh: bool = any();
        if exhausted {
            nd::assume(n == 0 && !fresh && have >= 0);
            ctr = CAP64;
        } else {
            nd::assume(!fresh || (n <= 1 && (n == 0 || have >= 0) && (n == 1 || have <= 0)));
            nd::assume(fresh || n >= 1);
            nd::assume(have <= 0 || n >= 1);
            ctr = n as u128;
        }
        *b.len = 0u64.wrapping_sub(n);
        *b.fresh = fresh;
        b.state.set_stream_param(0, n);
    }
    b.state.set_stream_param(1, ((d3 as u64) << 32) | d2 as u64);
    Abs { ctr, d1, d2, d3 }
}

/// Inv(P) for the abstract counter `ctr` and concrete `have`: the representation fields agree.
pub fn inv_holds<C: Variant>(c: &mut C, a: &Abs, have: i8) -> bool {
    let b = c.buf();
    let p0 = b.state.get_stream_param(0);
    let p1 = b.state.get_stream_param(1);
    let mut ok = *b.have == have && p1 == (((a.d3 as u64) << 32) | a.d2 as u64);
    if C::IETF {
        ok &= a.ctr <= CAP32;
        ok &= *b.len as u128 == CAP32 - a.ctr;
        ok &= !*b.fresh;
        ok &= (p0 & 0xffff_ffff) as u128 == a.ctr % CAP32;
        ok &= (p0 >> 32) as u32 == a.d1; // the nonce word is never disturbed by the counter
    } else {
        ok &= a.ctr <= CAP64;
        ok &= p0 as u128 == a.ctr % CAP64;
        ok &= *b.len as u128 == (CAP64 - a.ctr) % CAP64;
        if a.ctr == CAP64 { ok &= !*b.fresh; }
        if a.ctr == 0 { ok &= *b.fresh; }
        if *b.fresh { ok &= a.ctr <= 1; }
    }
    if have > 0 { ok &= a.ctr >= 1; }
    ok
}

pub const MAXN: usize = 512;

/// try_apply_keystream(data[..n]) from an arbitrary Inv state with concrete (have, n).
pub fn chk_apply<C: Variant>(have: i8, n: usize) {
    let key = [0u8; 32];
    let mut c = C::make(&key);
    let out0: [u8; 64] = any();
    let a = arbitrary_inv_state(&mut c, have, out0);
    let ks: [[u8; 64]; KROWS] = any();
    let data0: [u8; MAXN] = any();
    let mut data = data0;
    // concrete shape arithmetic (mirrors the property, not the code: bytes available, blocks to make)
    let lazy: usize = if have < 0 { 1 } else { 0 };
    let have1: usize = if have < 0 { (have as i32 + 64) as usize } else { have as usize };
    let ready = if have1 < n { have1 } else { n };
    let rest = n - ready;
    let need = rest / 64 + if rest % 64 != 0 { 1 } else { 0 };
    let cap = if C::IETF { CAP32 } else { CAP64 };
    let fits = a.ctr + (lazy + need) as u128 <= cap;
    unsafe {
        KS = ks;
        NEXT = 0;
        EXP_DR = C::DR;
        CTR0 = c.buf().state.get_stream_param(0);
    }
    let p1_before = c.buf().state.get_stream_param(1);
    let r = c.try_apply_keystream(&mut data[..n]);
    let sel: u8 = any();
    if fits {
        obl!(r.is_ok(), "ok_iff_request_ends_within_keystream");
        obl!(unsafe { NEXT } == lazy + need, "blocks_generated_equal_blocks_needed");
        // every processed byte is XORed with the keystream byte of its absolute position
        let mut ok = true;
        let mut i = 0;
        while i < n {
            let kb = if i < ready {
                if have < 0 { ks[0][64 - have1 + i] } else { out0[64 - have1 + i] }
            } else {
                let j = i - ready;
                ks[lazy + j / 64][j % 64]
            };
            ok &= data[i] == data0[i] ^ kb;
            i += 1;
        }
        obl!(ok, "each_byte_xored_with_keystream_of_its_absolute_position");
        let have2: usize = if rest == 0 { have1 - ready } else if rest % 64 == 0 { 0 } else { 64 - rest % 64 };
        let a2 = Abs { ctr: a.ctr + (lazy + need) as u128, d1: a.d1, d2: a.d2, d3: a.d3 };
        obl!(inv_holds(&mut c, &a2, have2 as i8), "invariant_at_position_plus_n");
        // buffered tail is the keystream of the last generated block
        let mut tail_ok = true;
        if have2 > 0 {
            let b = c.buf();
            let mut i = 64 - have2;
            while i < 64 {
                let e = if need > 0 { ks[lazy + need - 1][i] } else if have < 0 { ks[0][i] } else { out0[i] };
                tail_ok &= b.out[i] == e;
                i += 1;
            }
        }
        obl!(tail_ok, "buffer_tail_is_keystream_of_last_block");
    } else {
        obl!(r.is_err(), "?error_iff_request_passes_end_of_keystream");
        // position unchanged (the lazily pending block may have been filled: same position)
        let a2 = Abs { ctr: a.ctr + lazy as u128, d1: a.d1, d2: a.d2, d3: a.d3 };
        obl!(inv_holds(&mut c, &a2, have1 as i8), "?failed_request_keeps_position_and_invariant");
    }
    // frame: bytes outside data[..n] and, on error, all bytes unchanged
    let mut frame = true;
    let mut i = 0;
    while i < MAXN {
        if i >= n || !fits {
            frame &= data[i] == data0[i];
        }
        i += 1;
    }
    obl!(frame, "nothing_else_modified");
    #[cfg(kani)]
    kani::cover!(!fits || need == 0, "a state in which this request passes the end of the keystream exists (when it needs blocks)");
    #[cfg(kani)]
    kani::cover!(fits, "a state in which this request fits exists");
    obl!(c.buf().state.get_stream_param(1) == p1_before, "stream_id_untouched");
    let _ = sel;
}

/// Arbitrary Inv state with symbolic `have`.
fn arbitrary_state_sym<C: Variant>(c: &mut C) -> (Abs, i8) {
    let have: i8 = any();
    nd::assume(have >= -63 && have <= 63);
    let out0: [u8; 64] = any();
    let a = arbitrary_inv_state(c, have, out0);
    (a, have)
}

pub trait SeekTy: cipher::SeekNum + nd::Nd + Copy {
    /// value as i128 (all supported types fit)
    fn wide(self) -> i128;
    const MAXV: i128;
}
macro_rules! seekty { ($($t:ty),*) => {$( impl SeekTy for $t { fn wide(self) -> i128 { self as i128 } const MAXV: i128 = <$t>::MAX as i128; } )*}; }
seekty!(u8, u16, u32, u64, usize, i32);
impl SeekTy for u128 {
    fn wide(self) -> i128 { if self > i128::MAX as u128 { i128::MAX } else { self as i128 } }
    const MAXV: i128 = i128::MAX;
}

/// try_seek(p) for every value of every supported integer type, from an arbitrary Inv state.
pub fn chk_seek<C: Variant, T: SeekTy>(err_reachable: bool) {
    let key = [0u8; 32];
    let mut c = C::make(&key);
    let (a, have) = arbitrary_state_sym(&mut c);
    let p: T = any();
    let w = p.wide();
    let limit: i128 = if C::IETF { 1 << 38 } else { u64::MAX as i128 };
    let valid = w >= 0 && w <= limit;
    let r = c.try_seek(p);
    if valid {
        obl!(r.is_ok(), "seek_accepts_every_in_range_position");
        let a2 = Abs { ctr: (w / 64) as u128, d1: a.d1, d2: a.d2, d3: a.d3 };
        obl!(inv_holds(&mut c, &a2, -((w % 64) as i8)), "invariant_at_sought_position");
    } else {
        obl!(r.is_err(), "?seek_past_end_is_an_error_not_a_panic");
        obl!(inv_holds(&mut c, &a, have), "?failed_seek_leaves_state_unchanged");
    }
    #[cfg(kani)]
    kani::cover!(!valid || !err_reachable, "an out-of-range seek argument exists for this type (when the type has one)");
}

/// try_current_pos::<T>() returns the absolute position (or OverflowError iff it does not fit T).
pub fn chk_current_pos<C: Variant, T: SeekTy + PartialEq>() {
    let key = [0u8; 32];
    let mut c = C::make(&key);
    let (a, have) = arbitrary_state_sym(&mut c);
    // P = 64*ctr - have  (ctr <= 2^64, so P < 2^71)
    let pos: i128 = (a.ctr as i128) * 64 - have as i128;
    let r = c.try_current_pos::<T>();
    if pos <= T::MAXV {
        obl!(r.is_ok(), "current_pos_ok_when_representable");
        if let Ok(v) = r { obl!(v.wide() == pos, "current_pos_equals_absolute_position"); }
    } else {
        obl!(r.is_err(), "?current_pos_overflow_error_when_not_representable");
    }
    obl!(inv_holds(&mut c, &a, have), "current_pos_leaves_state_unchanged");
}

// ---------------------------------------------------------------- new(): initial state per type
fn le32(b: &[u8], i: usize) -> u32 { u32::from_le_bytes([b[i], b[i + 1], b[i + 2], b[i + 3]]) }
fn key_words(k: &[u8; 32]) -> [u32; 8] {
    let mut w = [0u32; 8];
    let mut i = 0;
    while i < 8 { w[i] = le32(k, 4 * i); i += 1; }
    w
}
pub fn chk_new_plain<C: Variant + NewCipher, const NL: usize>() {
    let key: [u8; 32] = any();
    let nonce: [u8; NL] = any();
    let mut c = <C as NewCipher>::new(GenericArray::from_slice(&key), GenericArray::from_slice(&nonce));
    let (k, d) = crate::leaf::parts(c.buf().state);
    obl!(k == key_words(&key), "key_words_little_endian");
    let e = if NL == 12 { [0, le32(&nonce, 0), le32(&nonce, 4), le32(&nonce, 8)] } else { [0, 0, le32(&nonce, 0), le32(&nonce, 4)] };
    obl!(d == e, "counter_zero_and_nonce_layout");
    let a = Abs { ctr: 0, d1: e[1], d2: e[2], d3: e[3] };
    obl!(inv_holds(&mut c, &a, 0), "invariant_at_position_zero");
}
/// XChaCha::new: subkey = first and last row of the rounds-only state computed by
/// `refill_narrow_rounds(key, nonce[0..16], declared double rounds)` (HChaCha), then nonce[16..24] as
/// stream id, counter 0.  `refill_narrow_rounds` is replaced by its contract (proved in wiring.rs for
/// every backend and every drounds): here an uninterpreted result with logged arguments.
pub static mut HR_ARGS: ([u32; 8], [u32; 4], u32) = ([0; 8], [0; 4], 0);
pub static mut HR_OUT: [[u32; 4]; 4] = [[0; 4]; 4];
pub static mut HR_CALLS: u32 = 0;
pub fn rounds_contract(state: &mut ChaCha, drounds: u32) -> c2_chacha::guts::State<ppv_lite86::vec128_storage> {
    use ppv_lite86::vec128_storage;
    unsafe {
        let (k, d) = crate::leaf::parts(state);
        HR_ARGS = (k, d, drounds);
        HR_CALLS += 1;
        let o: [[u32; 4]; 4] = any();
        HR_OUT = o;
        ic::state_from_parts(vec128_storage::from(o[0]), vec128_storage::from(o[1]), vec128_storage::from(o[2]), vec128_storage::from(o[3]))
    }
}
pub fn chk_new_x<C: Variant + NewCipher>() {
    let key: [u8; 32] = any();
    let nonce: [u8; 24] = any();
    let mut c = <C as NewCipher>::new(GenericArray::from_slice(&key), GenericArray::from_slice(&nonce));
    let n0 = [le32(&nonce, 0), le32(&nonce, 4), le32(&nonce, 8), le32(&nonce, 12)];
    let (args, x) = unsafe { (HR_ARGS, HR_OUT) };
    obl!(unsafe { HR_CALLS } == 1, "hchacha_rounds_called_once");
    obl!(args.0 == key_words(&key) && args.1 == n0, "hchacha_input_is_key_and_first_16_nonce_bytes");
    obl!(args.2 == C::DR, "hchacha_uses_declared_double_rounds");
    let (k, d) = crate::leaf::parts(c.buf().state);
    obl!(k == [x[0][0], x[0][1], x[0][2], x[0][3], x[3][0], x[3][1], x[3][2], x[3][3]], "subkey_is_first_and_last_row_of_hchacha_rounds");
    let e = [0, 0, le32(&nonce, 16), le32(&nonce, 20)];
    obl!(d == e, "counter_zero_and_last_8_nonce_bytes_as_stream_id");
    let a = Abs { ctr: 0, d1: 0, d2: e[2], d3: e[3] };
    obl!(inv_holds(&mut c, &a, 0), "invariant_at_position_zero");
}

#[cfg(kani)]
macro_rules! harness_buf {
    ($name:ident, $body:expr) => {
        #[kani::proof]
        #[kani::stub(c2_chacha::guts::ChaCha::refill, crate::buffer::refill_contract)]
        #[kani::stub(c2_chacha::guts::ChaCha::refill4, crate::buffer::refill4_contract)]
        #[kani::stub(c2_chacha::guts::refill_narrow_rounds, crate::buffer::rounds_contract)]
        #[cfg_attr(not(feature = "no_simd"), kani::stub(core::arch::x86_64::__cpuid_count, crate::models::cpuid_count))]
        #[cfg_attr(not(feature = "no_simd"), kani::stub(core::arch::x86_64::__cpuid, crate::models::cpuid))]
        #[cfg_attr(not(feature = "no_simd"), kani::stub(core::arch::x86_64::_xgetbv, crate::models::xgetbv))]
        #[cfg_attr(not(feature = "no_simd"), kani::stub(core::arch::x86_64::_mm_shuffle_epi8, crate::models::mm_shuffle_epi8))]
        #[cfg_attr(not(feature = "no_simd"), kani::stub(core::arch::x86_64::_mm_load_si128, crate::models::forbid_mm_load_si128))]
        #[cfg_attr(not(feature = "no_simd"), kani::stub(core::arch::x86_64::_mm_store_si128, crate::models::forbid_mm_store_si128))]
        #[cfg_attr(not(feature = "no_simd"), kani::stub(core::arch::x86_64::_mm256_load_si256, crate::models::forbid_mm256_load_si256))]
        #[cfg_attr(not(feature = "no_simd"), kani::stub(core::arch::x86_64::_mm256_store_si256, crate::models::forbid_mm256_store_si256))]
        #[cfg_attr(not(feature = "no_simd"), kani::stub(core::arch::x86_64::_mm_stream_si128, crate::models::forbid_mm_stream_si128))]
        #[cfg_attr(not(feature = "no_simd"), kani::stub(core::arch::x86_64::_mm256_shuffle_epi8, crate::models::mm256_shuffle_epi8))]
        #[cfg_attr(not(feature = "no_simd"), kani::stub(core::arch::x86_64::_mm_add_epi32, crate::models::mm_add_epi32))]
        #[cfg_attr(not(feature = "no_simd"), kani::stub(core::arch::x86_64::_mm_add_epi64, crate::models::mm_add_epi64))]
        #[cfg_attr(not(feature = "no_simd"), kani::stub(core::arch::x86_64::_mm256_add_epi32, crate::models::mm256_add_epi32))]
        #[cfg_attr(not(feature = "no_simd"), kani::stub(core::arch::x86_64::_mm256_zeroupper, crate::models::mm256_zeroupper))]
        pub fn $name() {
            $body
        }
    };
}
#[cfg(not(kani))]
macro_rules! harness_buf {
    ($name:ident, $body:expr) => {
        pub fn $name() {
            $body
        }
    };
}

pub mod ops {
    use super::*;
    macro_rules! seek_h { ($($n:ident, $C:ty, $T:ty, $e:expr;)*) => {$( harness_buf!($n, chk_seek::<$C, $T>($e)); )*}; }
    seek_h! {
        c02_seek_chacha20_u8, ChaCha20, u8, false; c02_seek_chacha20_u16, ChaCha20, u16, false; c02_seek_chacha20_u32, ChaCha20, u32, false;
        c02_seek_chacha20_u64, ChaCha20, u64, false; c02_seek_chacha20_u128, ChaCha20, u128, true; c02_seek_chacha20_usize, ChaCha20, usize, false;
        c02_seek_chacha20_i32, ChaCha20, i32, true;
        c02_seek_ietf_u8, Ietf, u8, false; c02_seek_ietf_u16, Ietf, u16, false; c02_seek_ietf_u32, Ietf, u32, false;
        c02_seek_ietf_u64, Ietf, u64, true; c02_seek_ietf_u128, Ietf, u128, true; c02_seek_ietf_usize, Ietf, usize, true;
        c02_seek_ietf_i32, Ietf, i32, true;
        c02_seek_xchacha20_u64, XChaCha20, u64, false; c02_seek_xchacha20_u128, XChaCha20, u128, true;
    }
    macro_rules! pos_h { ($($n:ident, $C:ty, $T:ty;)*) => {$( harness_buf!($n, chk_current_pos::<$C, $T>()); )*}; }
    pos_h! {
        c02_pos_chacha20_u8, ChaCha20, u8; c02_pos_chacha20_u16, ChaCha20, u16; c02_pos_chacha20_u32, ChaCha20, u32;
        c02_pos_chacha20_u64, ChaCha20, u64; c02_pos_chacha20_u128, ChaCha20, u128; c02_pos_chacha20_usize, ChaCha20, usize;
        c02_pos_chacha20_i32, ChaCha20, i32;
        c02_pos_ietf_u8, Ietf, u8; c02_pos_ietf_u16, Ietf, u16; c02_pos_ietf_u32, Ietf, u32;
        c02_pos_ietf_u64, Ietf, u64; c02_pos_ietf_u128, Ietf, u128; c02_pos_ietf_usize, Ietf, usize;
        c02_pos_ietf_i32, Ietf, i32;
        c02_pos_xchacha20_u64, XChaCha20, u64;
    }
    harness_buf!(c01_new_chacha20, chk_new_plain::<ChaCha20, 8>());
    harness_buf!(c01_new_chacha12, chk_new_plain::<ChaCha12, 8>());
    harness_buf!(c01_new_chacha8, chk_new_plain::<ChaCha8, 8>());
    harness_buf!(c01_new_ietf, chk_new_plain::<Ietf, 12>());
}
pub mod newx {
    use super::*;
    harness_buf!(c01_new_xchacha20, chk_new_x::<XChaCha20>());
    harness_buf!(c01_new_xchacha12, chk_new_x::<XChaCha12>());
    harness_buf!(c01_new_xchacha8, chk_new_x::<XChaCha8>());
}
include!("shapes.rs");
