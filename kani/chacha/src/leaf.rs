// Leaf contracts of the ChaCha core (C01 obligations 1, 2; C15).
use crate::nd::{self, any};
use crate::spec::{self, Rows};
use crate::view::*;
use c2_chacha::guts::ChaCha;
use c2_chacha::verif_incrate as ic;
use ppv_lite86::*;

fn lane_rows<const L: usize>(a: View<L>, b: View<L>, c: View<L>, d: View<L>, l: usize) -> Rows { [a[l], b[l], c[l], d[l]] }

/// Contract of guts::round: on every 128-bit lane, the result rows are the four parallel
/// quarter-rounds of the specification applied to the argument rows.
pub fn round_contract<V: ArithOps + BitOps32 + Vw<L>, const L: usize>() {
    let a: View<L> = any();
    let b: View<L> = any();
    let c: View<L> = any();
    let d: View<L> = any();
    let (ra, rb, rc, rd) = ic::round(V::mk(a), V::mk(b), V::mk(c), V::mk(d));
    let (ra, rb, rc, rd) = (ra.rd(), rb.rd(), rc.rd(), rd.rd());
    let mut ok = true;
    let mut l = 0;
    while l < L {
        let e = spec::round_rows(lane_rows(a, b, c, d, l));
        ok &= crate::uf::rows_eq(e, lane_rows(ra, rb, rc, rd, l));
        l += 1;
    }
    obl!(ok, "round_equals_spec_round_rows");
}
pub fn diag_contract<V: LaneWords4 + Vw<L>, const L: usize>() {
    let a: View<L> = any();
    let b: View<L> = any();
    let c: View<L> = any();
    let d: View<L> = any();
    let sel: u8 = any();
    match sel {
        0 => {
            let (ra, rb, rc, rd) = ic::diagonalize(V::mk(a), V::mk(b), V::mk(c), V::mk(d));
            let (ra, rb, rc, rd) = (ra.rd(), rb.rd(), rc.rd(), rd.rd());
            let mut ok = true;
            let mut l = 0;
            while l < L {
                ok &= crate::uf::rows_eq(spec::diag_rows(lane_rows(a, b, c, d, l)), lane_rows(ra, rb, rc, rd, l));
                l += 1;
            }
            obl!(ok, "diagonalize_equals_spec");
        }
        1 => {
            let (ra, rb, rc, rd) = ic::undiagonalize(V::mk(a), V::mk(b), V::mk(c), V::mk(d));
            let (ra, rb, rc, rd) = (ra.rd(), rb.rd(), rc.rd(), rd.rd());
            let mut ok = true;
            let mut l = 0;
            while l < L {
                ok &= crate::uf::rows_eq(spec::undiag_rows(lane_rows(a, b, c, d, l)), lane_rows(ra, rb, rc, rd, l));
                l += 1;
            }
            obl!(ok, "undiagonalize_equals_spec");
        }
        _ => {}
    }
}
/// The UF stub reads/writes vectors through their in-memory bytes: pin that representation.
pub fn repr_contract<V: Vw<L>, const L: usize, const N: usize>() {
    let a: View<L> = any();
    let v = V::mk(a);
    assert!(core::mem::size_of::<V>() == 4 * N);
    let w: [u32; N] = unsafe { core::mem::transmute_copy(&v) };
    let mut ok = true;
    let mut i = 0;
    while i < N {
        ok &= w[i] == a[i / 4][i % 4];
        i += 1;
    }
    obl!(ok, "vector_memory_is_le_word_view");
    let back: V = unsafe { core::mem::transmute_copy(&w) };
    obl!(eqv(back.rd(), a), "vector_from_memory_words");
}

macro_rules! backend_leaf {
    ($modname:ident, $M:ty) => {
        pub mod $modname {
            use super::*;
            type M = $M;
            harness!(c01_round_u32x4, round_contract::<<M as Machine>::u32x4, 1>());
            harness!(c01_round_u32x4x4, round_contract::<<M as Machine>::u32x4x4, 4>());
            harness!(c01_diag_u32x4, diag_contract::<<M as Machine>::u32x4, 1>());
            harness!(c01_diag_u32x4x4, diag_contract::<<M as Machine>::u32x4x4, 4>());
            harness!(c01_repr_u32x4, repr_contract::<<M as Machine>::u32x4, 1, 4>());
            harness!(c01_repr_u32x4x4, repr_contract::<<M as Machine>::u32x4x4, 4, 16>());
        }
    };
}
#[cfg(not(feature = "no_simd"))]
backend_leaf!(sse2, ppv_lite86::x86_64::SSE2);
#[cfg(not(feature = "no_simd"))]
backend_leaf!(ssse3, ppv_lite86::x86_64::SSSE3);
#[cfg(not(feature = "no_simd"))]
backend_leaf!(sse41, ppv_lite86::x86_64::SSE41);
#[cfg(not(feature = "no_simd"))]
backend_leaf!(avx2, ppv_lite86::x86_64::AVX2);
#[cfg(feature = "no_simd")]
backend_leaf!(generic, ppv_lite86::generic::GenericMachine);

// Backend-free: standard double round (columns, then diagonals 0-5-10-15 ...) equals the row-vector
// formulation the implementation is wired against.
harness!(c01_lemma_double_round, {
    let x: [u32; 16] = any();
    let a = spec::double_round_std(x);
    let b = spec::from_rows(spec::double_round_rows(spec::to_rows(x), &mut |r| spec::round_rows(r)));
    let mut ok = true;
    let mut i = 0;
    while i < 16 { ok &= a[i] == b[i]; i += 1; }
    obl!(ok, "double_round_std_equals_row_formulation");
});

// ---------------------------------------------------------------- C15
fn mk_state(key: [u32; 8], d: [u32; 4]) -> ChaCha {
    ic::chacha_from_parts(vec128_storage::from([key[0], key[1], key[2], key[3]]), vec128_storage::from([key[4], key[5], key[6], key[7]]), vec128_storage::from(d))
}
pub fn parts(s: &ChaCha) -> ([u32; 8], [u32; 4]) {
    let (b, c, d) = ic::chacha_parts(s);
    let (b, c, d): ([u32; 4], [u32; 4], [u32; 4]) = (b.into(), c.into(), d.into());
    ([b[0], b[1], b[2], b[3], c[0], c[1], c[2], c[3]], d)
}
harness!(c15_stream_params, {
    let key: [u32; 8] = any();
    let d: [u32; 4] = any();
    let sel: u8 = any();
    match sel {
        0 => {
            // set then get returns the value; other parameter and key untouched
            let p: u32 = any();
            nd::assume(p < 2);
            let v: u64 = any();
            let mut s = mk_state(key, d);
            let other_before = s.get_stream_param(1 - p);
            s.set_stream_param(p, v);
            obl!(s.get_stream_param(p) == v, "get_after_set");
            obl!(s.get_stream_param(1 - p) == other_before, "other_param_untouched");
            let (k2, d2) = parts(&s);
            obl!(k2 == key, "key_untouched");
            let mut e = d;
            e[(2 * p) as usize] = v as u32;
            e[(2 * p + 1) as usize] = (v >> 32) as u32;
            obl!(d2 == e, "state_words_are_le_halves");
        }
        1 => {
            // get reads the 64-bit little-endian pair
            let s = mk_state(key, d);
            obl!(s.get_stream_param(0) == ((d[1] as u64) << 32 | d[0] as u64), "get_param0");
            obl!(s.get_stream_param(1) == ((d[3] as u64) << 32 | d[2] as u64), "get_param1");
        }
        2 => {
            // state after new + set(0,c) + set(1,s) equals the state built directly from those values
            let kb: [u8; 32] = any();
            let nonce: [u8; 8] = any();
            let c: u64 = any();
            let sid: u64 = any();
            let mut s = ChaCha::new(&kb, &nonce);
            s.set_stream_param(0, c);
            s.set_stream_param(1, sid);
            let mut kw = [0u32; 8];
            let mut i = 0;
            while i < 8 { kw[i] = u32::from_le_bytes([kb[4 * i], kb[4 * i + 1], kb[4 * i + 2], kb[4 * i + 3]]); i += 1; }
            let direct = mk_state(kw, [c as u32, (c >> 32) as u32, sid as u32, (sid >> 32) as u32]);
            obl!(s == direct, "new_set_set_equals_direct_state");
        }
        3 => {
            // stream equality predicates
            let key2: [u32; 8] = any();
            let d2: [u32; 4] = any();
            let (s, t) = (mk_state(key, d), mk_state(key2, d2));
            obl!(s.stream64_eq(&t) == (key == key2 && d[2] == d2[2] && d[3] == d2[3]), "stream64_eq_iff");
            obl!(s.stream32_eq(&t) == (key == key2 && d[1] == d2[1] && d[2] == d2[2] && d[3] == d2[3]), "stream32_eq_iff");
        }
        4 => {
            // ChaCha::new layout for 8- and 12-byte nonces
            let kb: [u8; 32] = any();
            let n12: [u8; 12] = any();
            let s = ChaCha::new(&kb, &n12);
            let (_, dd) = parts(&s);
            let w = |i: usize| u32::from_le_bytes([n12[i], n12[i + 1], n12[i + 2], n12[i + 3]]);
            obl!(dd == [0, w(0), w(4), w(8)], "new_nonce12_layout");
            let s8 = ChaCha::new(&kb, &n12[..8]);
            let (k8, d8) = parts(&s8);
            obl!(d8 == [0, 0, w(0), w(4)], "new_nonce8_layout");
            let mut kw = [0u32; 8];
            let mut i = 0;
            while i < 8 { kw[i] = u32::from_le_bytes([kb[4 * i], kb[4 * i + 1], kb[4 * i + 2], kb[4 * i + 3]]); i += 1; }
            obl!(k8 == kw, "new_key_layout");
        }
        _ => {}
    }
});
