// Wiring contracts of the ChaCha cores (C01 obligation 3, C14, C03): the public entry points, run
// through the real dispatch macros on a modelled CPU, with guts::round replaced by the
// uninterpreted-function stub; postcondition = the row-vector specification evaluated over the same
// uninterpreted function (initial rows, 2*drounds alternating straight/diagonal layers, feed-forward
// of the pre-call state including the counter lane, transpose, little-endian serialisation) plus
// the frame/counter postcondition on the state.
use crate::hmacros::set_cpu;
use crate::leaf::parts;
use crate::nd::{self, any};
use crate::spec::{self, Rows};
use crate::uf::{self, spec_call, uf_reset, uf_rows, UF_N, SPEC_K};
use c2_chacha::guts::{ChaCha, State};
use c2_chacha::verif_incrate as ic;
use core::mem::{size_of, MaybeUninit};
use ppv_lite86::*;

/// Stub for guts::round::<V>: one uninterpreted application per 128-bit lane (= per block).
pub fn round_uf<V>(x: State<V>) -> State<V> {
    let (a, b, c, d) = ic::state_parts(x);
    let n = size_of::<V>() / 16;
    let mut oa = MaybeUninit::<V>::uninit();
    let mut ob = MaybeUninit::<V>::uninit();
    let mut oc = MaybeUninit::<V>::uninit();
    let mut od = MaybeUninit::<V>::uninit();
    unsafe {
        let (pa, pb, pc, pd) = (&a as *const V as *const [u32; 4], &b as *const V as *const [u32; 4],
                                &c as *const V as *const [u32; 4], &d as *const V as *const [u32; 4]);
        let (qa, qb, qc, qd) = (oa.as_mut_ptr() as *mut [u32; 4], ob.as_mut_ptr() as *mut [u32; 4],
                                oc.as_mut_ptr() as *mut [u32; 4], od.as_mut_ptr() as *mut [u32; 4]);
        let mut l = 0;
        while l < n {
            let o = uf_rows([*pa.add(l), *pb.add(l), *pc.add(l), *pd.add(l)]);
            *qa.add(l) = o[0];
            *qb.add(l) = o[1];
            *qc.add(l) = o[2];
            *qd.add(l) = o[3];
            l += 1;
        }
        ic::state_from_parts(oa.assume_init(), ob.assume_init(), oc.assume_init(), od.assume_init())
    }
}

fn mk_state(key: [u32; 8], d: [u32; 4]) -> ChaCha {
    ic::chacha_from_parts(vec128_storage::from([key[0], key[1], key[2], key[3]]), vec128_storage::from([key[4], key[5], key[6], key[7]]), vec128_storage::from(d))
}
fn bytes_eq64(out: &[u8], e: [u8; 64]) -> bool {
    let mut ok = true;
    let mut i = 0;
    while i < 64 { ok &= out[i] == e[i]; i += 1; }
    ok
}

pub fn chk_refill(level: u8, dr: u32) {
    set_cpu(level);
    uf_reset();
    let key: [u32; 8] = any();
    let d: [u32; 4] = any();
    let mut st = mk_state(key, d);
    let mut out = [0u8; 64];
    st.refill(dr, &mut out);
    obl!(unsafe { UF_N } == 2 * dr as usize, "round_call_count");
    let e = spec::block_rows(key, d, dr, &mut |r| spec_call(r, 1, 0));
    obl!(bytes_eq64(&out, spec::words_le(e)), "refill_block_equals_spec");
    let (k2, d2) = parts(&st);
    obl!(k2 == key, "key_frame");
    obl!(d2 == spec::d_add(d, 1), "counter_plus_one_stream_id_untouched");
}

pub fn chk_refill4(level: u8, dr: u32) {
    set_cpu(level);
    uf_reset();
    let key: [u32; 8] = any();
    let d: [u32; 4] = any();
    let mut st = mk_state(key, d);
    let mut out = [0u8; 256];
    st.refill4(dr, &mut out);
    obl!(unsafe { UF_N } == 8 * dr as usize, "round_call_count");
    let mut ok = true;
    let mut i = 0;
    while i < 4 {
        unsafe { SPEC_K = 0; }
        let e = spec::block_rows(key, spec::d_add(d, i as u64), dr, &mut |r| spec_call(r, 4, i));
        ok &= bytes_eq64(&out[64 * i..64 * i + 64], spec::words_le(e));
        i += 1;
    }
    obl!(ok, "refill4_blocks_equal_spec_at_counter_plus_i");
    let (k2, d2) = parts(&st);
    obl!(k2 == key, "key_frame");
    obl!(d2 == spec::d_add(d, 4), "counter_plus_four_stream_id_untouched");
}

pub fn chk_refill_rounds(level: u8, dr: u32) {
    set_cpu(level);
    uf_reset();
    let key: [u32; 8] = any();
    let d: [u32; 4] = any();
    let mut st = mk_state(key, d);
    let x = ic::refill_rounds(&mut st, dr);
    obl!(unsafe { UF_N } == 2 * dr as usize, "round_call_count");
    let (a, b, c, dd) = ic::state_parts(x);
    let got: Rows = [a.into(), b.into(), c.into(), dd.into()];
    let e = spec::rounds_rows(spec::to_rows(spec::init_state(key, d)), dr, &mut |r| spec_call(r, 1, 0));
    obl!(uf::rows_eq(got, e), "rounds_only_state_equals_spec");
    let (k2, d2) = parts(&st);
    obl!(k2 == key && d2 == d, "state_unchanged");
}

#[cfg(not(feature = "no_simd"))]
pub mod x86_refill {
    use super::*;
    harness_uf!(c01_refill_l0_dr0, chk_refill(0, 0));
    harness_uf!(c01_refill_l0_dr1, chk_refill(0, 1));
    harness_uf!(c01_refill_l0_dr2, chk_refill(0, 2));
    harness_uf!(c01_refill_l0_dr3, chk_refill(0, 3));
    harness_uf!(c01_refill_l0_dr4, chk_refill(0, 4));
    harness_uf!(c01_refill_l0_dr5, chk_refill(0, 5));
    harness_uf!(c01_refill_l0_dr6, chk_refill(0, 6));
    harness_uf!(c01_refill_l0_dr7, chk_refill(0, 7));
    harness_uf!(c01_refill_l0_dr8, chk_refill(0, 8));
    harness_uf!(c01_refill_l0_dr9, chk_refill(0, 9));
    harness_uf!(c01_refill_l0_dr10, chk_refill(0, 10));
    harness_uf!(c01_refill_l1_dr0, chk_refill(1, 0));
    harness_uf!(c01_refill_l1_dr1, chk_refill(1, 1));
    harness_uf!(c01_refill_l1_dr2, chk_refill(1, 2));
    harness_uf!(c01_refill_l1_dr3, chk_refill(1, 3));
    harness_uf!(c01_refill_l1_dr4, chk_refill(1, 4));
    harness_uf!(c01_refill_l1_dr5, chk_refill(1, 5));
    harness_uf!(c01_refill_l1_dr6, chk_refill(1, 6));
    harness_uf!(c01_refill_l1_dr7, chk_refill(1, 7));
    harness_uf!(c01_refill_l1_dr8, chk_refill(1, 8));
    harness_uf!(c01_refill_l1_dr9, chk_refill(1, 9));
    harness_uf!(c01_refill_l1_dr10, chk_refill(1, 10));
    harness_uf!(c01_refill_l2_dr0, chk_refill(2, 0));
    harness_uf!(c01_refill_l2_dr1, chk_refill(2, 1));
    harness_uf!(c01_refill_l2_dr2, chk_refill(2, 2));
    harness_uf!(c01_refill_l2_dr3, chk_refill(2, 3));
    harness_uf!(c01_refill_l2_dr4, chk_refill(2, 4));
    harness_uf!(c01_refill_l2_dr5, chk_refill(2, 5));
    harness_uf!(c01_refill_l2_dr6, chk_refill(2, 6));
    harness_uf!(c01_refill_l2_dr7, chk_refill(2, 7));
    harness_uf!(c01_refill_l2_dr8, chk_refill(2, 8));
    harness_uf!(c01_refill_l2_dr9, chk_refill(2, 9));
    harness_uf!(c01_refill_l2_dr10, chk_refill(2, 10));
    harness_uf!(c01_refill_l3_dr0, chk_refill(3, 0));
    harness_uf!(c01_refill_l3_dr1, chk_refill(3, 1));
    harness_uf!(c01_refill_l3_dr2, chk_refill(3, 2));
    harness_uf!(c01_refill_l3_dr3, chk_refill(3, 3));
    harness_uf!(c01_refill_l3_dr4, chk_refill(3, 4));
    harness_uf!(c01_refill_l3_dr5, chk_refill(3, 5));
    harness_uf!(c01_refill_l3_dr6, chk_refill(3, 6));
    harness_uf!(c01_refill_l3_dr7, chk_refill(3, 7));
    harness_uf!(c01_refill_l3_dr8, chk_refill(3, 8));
    harness_uf!(c01_refill_l3_dr9, chk_refill(3, 9));
    harness_uf!(c01_refill_l3_dr10, chk_refill(3, 10));
    harness_uf!(c01_refill_l4_dr0, chk_refill(4, 0));
    harness_uf!(c01_refill_l4_dr1, chk_refill(4, 1));
    harness_uf!(c01_refill_l4_dr2, chk_refill(4, 2));
    harness_uf!(c01_refill_l4_dr3, chk_refill(4, 3));
    harness_uf!(c01_refill_l4_dr4, chk_refill(4, 4));
    harness_uf!(c01_refill_l4_dr5, chk_refill(4, 5));
    harness_uf!(c01_refill_l4_dr6, chk_refill(4, 6));
    harness_uf!(c01_refill_l4_dr7, chk_refill(4, 7));
    harness_uf!(c01_refill_l4_dr8, chk_refill(4, 8));
    harness_uf!(c01_refill_l4_dr9, chk_refill(4, 9));
    harness_uf!(c01_refill_l4_dr10, chk_refill(4, 10));
}
#[cfg(feature = "no_simd")]
pub mod generic_refill {
    use super::*;
    harness_uf!(c01_refill_gen_dr0, chk_refill(0, 0));
    harness_uf!(c01_refill_gen_dr1, chk_refill(0, 1));
    harness_uf!(c01_refill_gen_dr2, chk_refill(0, 2));
    harness_uf!(c01_refill_gen_dr3, chk_refill(0, 3));
    harness_uf!(c01_refill_gen_dr4, chk_refill(0, 4));
    harness_uf!(c01_refill_gen_dr5, chk_refill(0, 5));
    harness_uf!(c01_refill_gen_dr6, chk_refill(0, 6));
    harness_uf!(c01_refill_gen_dr7, chk_refill(0, 7));
    harness_uf!(c01_refill_gen_dr8, chk_refill(0, 8));
    harness_uf!(c01_refill_gen_dr9, chk_refill(0, 9));
    harness_uf!(c01_refill_gen_dr10, chk_refill(0, 10));
}

#[cfg(not(feature = "no_simd"))]
pub mod x86_refill4 {
    use super::*;
    harness_uf!(c01_refill4_l0_dr0, chk_refill4(0, 0));
    harness_uf!(c01_refill4_l0_dr1, chk_refill4(0, 1));
    harness_uf!(c01_refill4_l0_dr2, chk_refill4(0, 2));
    harness_uf!(c01_refill4_l0_dr3, chk_refill4(0, 3));
    harness_uf!(c01_refill4_l0_dr4, chk_refill4(0, 4));
    harness_uf!(c01_refill4_l0_dr5, chk_refill4(0, 5));
    harness_uf!(c01_refill4_l0_dr6, chk_refill4(0, 6));
    harness_uf!(c01_refill4_l0_dr7, chk_refill4(0, 7));
    harness_uf!(c01_refill4_l0_dr8, chk_refill4(0, 8));
    harness_uf!(c01_refill4_l0_dr9, chk_refill4(0, 9));
    harness_uf!(c01_refill4_l0_dr10, chk_refill4(0, 10));
    harness_uf!(c01_refill4_l1_dr0, chk_refill4(1, 0));
    harness_uf!(c01_refill4_l1_dr1, chk_refill4(1, 1));
    harness_uf!(c01_refill4_l1_dr2, chk_refill4(1, 2));
    harness_uf!(c01_refill4_l1_dr3, chk_refill4(1, 3));
    harness_uf!(c01_refill4_l1_dr4, chk_refill4(1, 4));
    harness_uf!(c01_refill4_l1_dr5, chk_refill4(1, 5));
    harness_uf!(c01_refill4_l1_dr6, chk_refill4(1, 6));
    harness_uf!(c01_refill4_l1_dr7, chk_refill4(1, 7));
    harness_uf!(c01_refill4_l1_dr8, chk_refill4(1, 8));
    harness_uf!(c01_refill4_l1_dr9, chk_refill4(1, 9));
    harness_uf!(c01_refill4_l1_dr10, chk_refill4(1, 10));
    harness_uf!(c01_refill4_l2_dr0, chk_refill4(2, 0));
    harness_uf!(c01_refill4_l2_dr1, chk_refill4(2, 1));
    harness_uf!(c01_refill4_l2_dr2, chk_refill4(2, 2));
    harness_uf!(c01_refill4_l2_dr3, chk_refill4(2, 3));
    harness_uf!(c01_refill4_l2_dr4, chk_refill4(2, 4));
    harness_uf!(c01_refill4_l2_dr5, chk_refill4(2, 5));
    harness_uf!(c01_refill4_l2_dr6, chk_refill4(2, 6));
    harness_uf!(c01_refill4_l2_dr7, chk_refill4(2, 7));
    harness_uf!(c01_refill4_l2_dr8, chk_refill4(2, 8));
    harness_uf!(c01_refill4_l2_dr9, chk_refill4(2, 9));
    harness_uf!(c01_refill4_l2_dr10, chk_refill4(2, 10));
    harness_uf!(c01_refill4_l3_dr0, chk_refill4(3, 0));
    harness_uf!(c01_refill4_l3_dr1, chk_refill4(3, 1));
    harness_uf!(c01_refill4_l3_dr2, chk_refill4(3, 2));
    harness_uf!(c01_refill4_l3_dr3, chk_refill4(3, 3));
    harness_uf!(c01_refill4_l3_dr4, chk_refill4(3, 4));
    harness_uf!(c01_refill4_l3_dr5, chk_refill4(3, 5));
    harness_uf!(c01_refill4_l3_dr6, chk_refill4(3, 6));
    harness_uf!(c01_refill4_l3_dr7, chk_refill4(3, 7));
    harness_uf!(c01_refill4_l3_dr8, chk_refill4(3, 8));
    harness_uf!(c01_refill4_l3_dr9, chk_refill4(3, 9));
    harness_uf!(c01_refill4_l3_dr10, chk_refill4(3, 10));
    harness_uf!(c01_refill4_l4_dr0, chk_refill4(4, 0));
    harness_uf!(c01_refill4_l4_dr1, chk_refill4(4, 1));
    harness_uf!(c01_refill4_l4_dr2, chk_refill4(4, 2));
    harness_uf!(c01_refill4_l4_dr3, chk_refill4(4, 3));
    harness_uf!(c01_refill4_l4_dr4, chk_refill4(4, 4));
    harness_uf!(c01_refill4_l4_dr5, chk_refill4(4, 5));
    harness_uf!(c01_refill4_l4_dr6, chk_refill4(4, 6));
    harness_uf!(c01_refill4_l4_dr7, chk_refill4(4, 7));
    harness_uf!(c01_refill4_l4_dr8, chk_refill4(4, 8));
    harness_uf!(c01_refill4_l4_dr9, chk_refill4(4, 9));
    harness_uf!(c01_refill4_l4_dr10, chk_refill4(4, 10));
}
#[cfg(feature = "no_simd")]
pub mod generic_refill4 {
    use super::*;
    harness_uf!(c01_refill4_gen_dr0, chk_refill4(0, 0));
    harness_uf!(c01_refill4_gen_dr1, chk_refill4(0, 1));
    harness_uf!(c01_refill4_gen_dr2, chk_refill4(0, 2));
    harness_uf!(c01_refill4_gen_dr3, chk_refill4(0, 3));
    harness_uf!(c01_refill4_gen_dr4, chk_refill4(0, 4));
    harness_uf!(c01_refill4_gen_dr5, chk_refill4(0, 5));
    harness_uf!(c01_refill4_gen_dr6, chk_refill4(0, 6));
    harness_uf!(c01_refill4_gen_dr7, chk_refill4(0, 7));
    harness_uf!(c01_refill4_gen_dr8, chk_refill4(0, 8));
    harness_uf!(c01_refill4_gen_dr9, chk_refill4(0, 9));
    harness_uf!(c01_refill4_gen_dr10, chk_refill4(0, 10));
}

#[cfg(not(feature = "no_simd"))]
pub mod x86_refill_rounds {
    use super::*;
    harness_uf!(c01_refill_rounds_l0_dr0, chk_refill_rounds(0, 0));
    harness_uf!(c01_refill_rounds_l0_dr1, chk_refill_rounds(0, 1));
    harness_uf!(c01_refill_rounds_l0_dr2, chk_refill_rounds(0, 2));
    harness_uf!(c01_refill_rounds_l0_dr3, chk_refill_rounds(0, 3));
    harness_uf!(c01_refill_rounds_l0_dr4, chk_refill_rounds(0, 4));
    harness_uf!(c01_refill_rounds_l0_dr5, chk_refill_rounds(0, 5));
    harness_uf!(c01_refill_rounds_l0_dr6, chk_refill_rounds(0, 6));
    harness_uf!(c01_refill_rounds_l0_dr7, chk_refill_rounds(0, 7));
    harness_uf!(c01_refill_rounds_l0_dr8, chk_refill_rounds(0, 8));
    harness_uf!(c01_refill_rounds_l0_dr9, chk_refill_rounds(0, 9));
    harness_uf!(c01_refill_rounds_l0_dr10, chk_refill_rounds(0, 10));
    harness_uf!(c01_refill_rounds_l1_dr0, chk_refill_rounds(1, 0));
    harness_uf!(c01_refill_rounds_l1_dr1, chk_refill_rounds(1, 1));
    harness_uf!(c01_refill_rounds_l1_dr2, chk_refill_rounds(1, 2));
    harness_uf!(c01_refill_rounds_l1_dr3, chk_refill_rounds(1, 3));
    harness_uf!(c01_refill_rounds_l1_dr4, chk_refill_rounds(1, 4));
    harness_uf!(c01_refill_rounds_l1_dr5, chk_refill_rounds(1, 5));
    harness_uf!(c01_refill_rounds_l1_dr6, chk_refill_rounds(1, 6));
    harness_uf!(c01_refill_rounds_l1_dr7, chk_refill_rounds(1, 7));
    harness_uf!(c01_refill_rounds_l1_dr8, chk_refill_rounds(1, 8));
    harness_uf!(c01_refill_rounds_l1_dr9, chk_refill_rounds(1, 9));
    harness_uf!(c01_refill_rounds_l1_dr10, chk_refill_rounds(1, 10));
    harness_uf!(c01_refill_rounds_l2_dr0, chk_refill_rounds(2, 0));
    harness_uf!(c01_refill_rounds_l2_dr1, chk_refill_rounds(2, 1));
    harness_uf!(c01_refill_rounds_l2_dr2, chk_refill_rounds(2, 2));
    harness_uf!(c01_refill_rounds_l2_dr3, chk_refill_rounds(2, 3));
    harness_uf!(c01_refill_rounds_l2_dr4, chk_refill_rounds(2, 4));
    harness_uf!(c01_refill_rounds_l2_dr5, chk_refill_rounds(2, 5));
    harness_uf!(c01_refill_rounds_l2_dr6, chk_refill_rounds(2, 6));
    harness_uf!(c01_refill_rounds_l2_dr7, chk_refill_rounds(2, 7));
    harness_uf!(c01_refill_rounds_l2_dr8, chk_refill_rounds(2, 8));
    harness_uf!(c01_refill_rounds_l2_dr9, chk_refill_rounds(2, 9));
    harness_uf!(c01_refill_rounds_l2_dr10, chk_refill_rounds(2, 10));
    harness_uf!(c01_refill_rounds_l3_dr0, chk_refill_rounds(3, 0));
    harness_uf!(c01_refill_rounds_l3_dr1, chk_refill_rounds(3, 1));
    harness_uf!(c01_refill_rounds_l3_dr2, chk_refill_rounds(3, 2));
    harness_uf!(c01_refill_rounds_l3_dr3, chk_refill_rounds(3, 3));
    harness_uf!(c01_refill_rounds_l3_dr4, chk_refill_rounds(3, 4));
    harness_uf!(c01_refill_rounds_l3_dr5, chk_refill_rounds(3, 5));
    harness_uf!(c01_refill_rounds_l3_dr6, chk_refill_rounds(3, 6));
    harness_uf!(c01_refill_rounds_l3_dr7, chk_refill_rounds(3, 7));
    harness_uf!(c01_refill_rounds_l3_dr8, chk_refill_rounds(3, 8));
    harness_uf!(c01_refill_rounds_l3_dr9, chk_refill_rounds(3, 9));
    harness_uf!(c01_refill_rounds_l3_dr10, chk_refill_rounds(3, 10));
    harness_uf!(c01_refill_rounds_l4_dr0, chk_refill_rounds(4, 0));
    harness_uf!(c01_refill_rounds_l4_dr1, chk_refill_rounds(4, 1));
    harness_uf!(c01_refill_rounds_l4_dr2, chk_refill_rounds(4, 2));
    harness_uf!(c01_refill_rounds_l4_dr3, chk_refill_rounds(4, 3));
    harness_uf!(c01_refill_rounds_l4_dr4, chk_refill_rounds(4, 4));
    harness_uf!(c01_refill_rounds_l4_dr5, chk_refill_rounds(4, 5));
    harness_uf!(c01_refill_rounds_l4_dr6, chk_refill_rounds(4, 6));
    harness_uf!(c01_refill_rounds_l4_dr7, chk_refill_rounds(4, 7));
    harness_uf!(c01_refill_rounds_l4_dr8, chk_refill_rounds(4, 8));
    harness_uf!(c01_refill_rounds_l4_dr9, chk_refill_rounds(4, 9));
    harness_uf!(c01_refill_rounds_l4_dr10, chk_refill_rounds(4, 10));
}
#[cfg(feature = "no_simd")]
pub mod generic_refill_rounds {
    use super::*;
    harness_uf!(c01_refill_rounds_gen_dr0, chk_refill_rounds(0, 0));
    harness_uf!(c01_refill_rounds_gen_dr1, chk_refill_rounds(0, 1));
    harness_uf!(c01_refill_rounds_gen_dr2, chk_refill_rounds(0, 2));
    harness_uf!(c01_refill_rounds_gen_dr3, chk_refill_rounds(0, 3));
    harness_uf!(c01_refill_rounds_gen_dr4, chk_refill_rounds(0, 4));
    harness_uf!(c01_refill_rounds_gen_dr5, chk_refill_rounds(0, 5));
    harness_uf!(c01_refill_rounds_gen_dr6, chk_refill_rounds(0, 6));
    harness_uf!(c01_refill_rounds_gen_dr7, chk_refill_rounds(0, 7));
    harness_uf!(c01_refill_rounds_gen_dr8, chk_refill_rounds(0, 8));
    harness_uf!(c01_refill_rounds_gen_dr9, chk_refill_rounds(0, 9));
    harness_uf!(c01_refill_rounds_gen_dr10, chk_refill_rounds(0, 10));
}
