// Harness crate for c2-chacha: C01, C14, C15 (cores and parameters), C02, C11 (Buffer), C03 (per backend).
#![recursion_limit = "1024"]
#![allow(non_camel_case_types, unused_imports, dead_code, static_mut_refs, clippy::all)]
#[path = "../common/nd.rs"]
#[macro_use]
pub mod nd;
#[cfg(not(feature = "no_simd"))]
#[path = "../common/models.rs"]
pub mod models;
#[path = "../common/uf.rs"]
pub mod uf;
#[path = "../spec/chacha.rs"]
pub mod spec;
#[path = "../common/view.rs"]
pub mod view;
#[macro_use]
pub mod hmacros;
pub mod leaf;
pub mod wiring;
pub mod buffer;
