// Harness crate for threefish-cipher (C09, C10 and the Threefish layer of C05).
//  K-TF-1  mix / inv_mix == specification MIX (full domain; also inverse of each other)
//  K-TF-2  with_tweak == specification key schedule (full domain)
//  K-TF-3  read_u64v_le / write_u64v_le are little-endian word I/O
//  K-TF-4  encrypt_block / decrypt_block at byte level, for an ARBITRARY subkey table, with mix /
//          inv_mix replaced by an uninterpreted function: rounds, subkey injection every 4 rounds,
//          rotation-constant schedule, word permutation, final subkey, LE I/O == specification.
#![recursion_limit = "1024"]
#![allow(non_camel_case_types, unused_imports, dead_code, static_mut_refs, clippy::all)]
#[path = "../common/nd.rs"]
#[macro_use]
pub mod nd;
#[path = "../spec/threefish.rs"]
pub mod spec;
use cipher::generic_array::GenericArray;
use cipher::{BlockDecrypt, BlockEncrypt, NewBlockCipher};
use nd::any;
use threefish_cipher::verif_incrate as ic;
use threefish_cipher::{Threefish1024, Threefish256, Threefish512};

#[path = "../common/mixuf.rs"]
pub mod mixuf;
pub use mixuf::*;
#[cfg(kani)]
macro_rules! harness { ($name:ident, $body:expr) => { #[kani::proof] pub fn $name() { $body } }; }
#[cfg(kani)]
macro_rules! harness_uf { ($name:ident, $body:expr) => {
    #[kani::proof]
    #[kani::stub(threefish_cipher::mix, crate::mix_uf)]
    #[kani::stub(threefish_cipher::inv_mix, crate::mix_uf)]
    pub fn $name() { $body }
}; }
#[cfg(not(kani))]
macro_rules! harness { ($name:ident, $body:expr) => { pub fn $name() { $body } }; }
#[cfg(not(kani))]
macro_rules! harness_uf { ($name:ident, $body:expr) => { pub fn $name() { $body } }; }

harness!(c09_mix_contract, {
    let r: u32 = any();
    nd::assume(r < 64);
    let x: (u64, u64) = (any(), any());
    let sel: u8 = any();
    match sel {
        0 => { let y = ic::mix(r, x); let e = spec::mix(r, x); obl!(y.0 == e.0 && y.1 == e.1, "mix_equals_spec"); }
        1 => { let y = ic::inv_mix(r, x); let e = spec::inv_mix(r, x); obl!(y.0 == e.0 && y.1 == e.1, "inv_mix_equals_spec"); }
        2 => { let y = ic::inv_mix(r, ic::mix(r, x)); obl!(y.0 == x.0 && y.1 == x.1, "inv_mix_after_mix_is_identity"); }
        3 => { let y = ic::mix(r, ic::inv_mix(r, x)); obl!(y.0 == x.0 && y.1 == x.1, "mix_after_inv_mix_is_identity"); }
        _ => {}
    }
});

macro_rules! tf_harness {
    ($modname:ident, $T:ident, $nw:expr, $nb:expr, $ns:expr, $sk:ident, $from_sk:ident, $ks:ident, $enc:ident, $dec:ident, $round_core:ident, $inv_core:ident, $R:ident, $nr:expr, $calls:expr) => {
        pub mod $modname {
            use super::*;
            fn words(b: &[u8; $nb]) -> [u64; $nw] {
                let mut w = [0u64; $nw];
                let mut i = 0;
                while i < $nw {
                    w[i] = u64::from_le_bytes([b[8 * i], b[8 * i + 1], b[8 * i + 2], b[8 * i + 3], b[8 * i + 4], b[8 * i + 5], b[8 * i + 6], b[8 * i + 7]]);
                    i += 1;
                }
                w
            }
            fn bytes_match(b: &[u8], w: [u64; $nw]) -> bool {
                let mut ok = true;
                let mut i = 0;
                while i < $nb { ok &= b[i] == (w[i / 8] >> (8 * (i % 8))) as u8; i += 1; }
                ok
            }
            harness!(c09_key_schedule, {
                let key: [u8; $nb] = any();
                let (t0, t1): (u64, u64) = (any(), any());
                let c = $T::with_tweak(GenericArray::from_slice(&key), t0, t1);
                let got = ic::$sk(&c);
                let e = spec::$ks(words(&key), t0, t1);
                let mut ok = true;
                let mut s = 0;
                while s < $ns { let mut i = 0; while i < $nw { ok &= got[s][i] == e[s][i]; i += 1; } s += 1; }
                obl!(ok, "with_tweak_equals_spec_key_schedule");
                // NewBlockCipher::new is the zero-tweak schedule
                let c0 = <$T as NewBlockCipher>::new(GenericArray::from_slice(&key));
                let g0 = ic::$sk(&c0);
                let e0 = spec::$ks(words(&key), 0, 0);
                let mut ok0 = true;
                let mut s = 0;
                while s < $ns { let mut i = 0; while i < $nw { ok0 &= g0[s][i] == e0[s][i]; i += 1; } s += 1; }
                obl!(ok0, "new_is_zero_tweak_schedule");
            });
            harness!(c09_le_io, {
                let b: [u8; $nb] = any();
                let mut w = [0u64; $nw];
                ic::read_u64v_le(&mut w, &b);
                obl!(w == words(&b), "read_u64v_le_little_endian");
                let mut o = [0u8; $nb];
                ic::write_u64v_le(&mut o, &w);
                obl!(o == b, "write_u64v_le_round_trips");
            });
            harness_uf!(c09_encrypt_wiring, {
                let sk: [[u64; $nw]; $ns] = any();
                let c = ic::$from_sk(sk);
                let p: [u8; $nb] = any();
                let mut block = GenericArray::clone_from_slice(&p);
                unsafe { UF_N = 0; SPEC_K = 0; }
                c.encrypt_block(&mut block);
                obl!(unsafe { UF_N } == $calls, "mix_call_count");
                let e = spec::$enc(&sk, words(&p), &mut |r, x| spec_mix(r, x));
                obl!(bytes_match(&block[..], e), "ciphertext_bytes_equal_spec");
            });
            // Spec-level step lemma for C10 (real MIX): every round is a bijection and inv_round is its
            // two-sided inverse, for every round index, state and subkey table; likewise the final
            // subkey.  The induction over the rounds is verus/threefish_inverse.rs.
            harness!(c10_round_inverse_lemma, {
                // round(sk,d,.) and inv_round(sk,d,.) are round_core / inv_core applied to the SAME
                // (subkey-or-none, rotation row) pair, so the lemma over every such pair (any subkey row,
                // with and without injection, each of the eight rotation rows) covers every round index.
                let k: [u64; $nw] = any();
                let v: [u64; $nw] = any();
                let with_key: bool = any();
                let inject = if with_key { Some(k) } else { None };
                let sel: u8 = any();
                nd::assume(sel < 16);
                let rot = spec::$R[(sel % 8) as usize];
                if sel < 8 {
                    let w = spec::$inv_core(inject, rot, spec::$round_core(inject, rot, v, &mut |r, x| spec::mix(r, x)), &mut |r, x| spec::inv_mix(r, x));
                    obl!(w == v, "inv_round_after_round_is_identity");
                } else {
                    let w = spec::$round_core(inject, rot, spec::$inv_core(inject, rot, v, &mut |r, x| spec::inv_mix(r, x)), &mut |r, x| spec::mix(r, x));
                    obl!(w == v, "round_after_inv_round_is_identity");
                }
            });
            harness_uf!(c10_decrypt_wiring, {
                let sk: [[u64; $nw]; $ns] = any();
                let c = ic::$from_sk(sk);
                let p: [u8; $nb] = any();
                let mut block = GenericArray::clone_from_slice(&p);
                unsafe { UF_N = 0; SPEC_K = 0; }
                c.decrypt_block(&mut block);
                obl!(unsafe { UF_N } == $calls, "inv_mix_call_count");
                let e = spec::$dec(&sk, words(&p), &mut |r, x| spec_mix(r, x));
                obl!(bytes_match(&block[..], e), "plaintext_bytes_equal_spec_inverse");
            });
        }
    };
}
tf_harness!(tf256, Threefish256, 4, 32, 19, sk256, from_sk256, key_schedule_256, encrypt_256, decrypt_256, round_core_256, inv_core_256, R4, 72, 72 * 2);
tf_harness!(tf512, Threefish512, 8, 64, 19, sk512, from_sk512, key_schedule_512, encrypt_512, decrypt_512, round_core_512, inv_core_512, R8, 72, 72 * 4);
tf_harness!(tf1024, Threefish1024, 16, 128, 21, sk1024, from_sk1024, key_schedule_1024, encrypt_1024, decrypt_1024, round_core_1024, inv_core_1024, R16, 80, 80 * 8);
