// Harness crate for ppv-lite86 (C12, C13, and the leaf layer of C03/C16).
// Contracts: one named obligation (OBL) per (backend, vector type, operation): the operation applied
// to a vector built from an arbitrary word view returns the vector whose word view is the scalar
// meaning of the operation's name.  The word view is taken through the storage unions
// (Store::unpack / Into<vecNNN_storage>), and is itself pinned against lanes, scalars and bytes by
// the C13 obligations.
#![recursion_limit = "1024"]
#![allow(non_camel_case_types, unused_imports, dead_code, clippy::all)]
#[path = "../common/nd.rs"]
#[macro_use]
pub mod nd;
#[cfg(not(feature = "no_simd"))]
#[path = "../common/models.rs"]
pub mod models;
#[path = "../common/view.rs"]
pub mod view;
#[macro_use]
pub mod ops;
#[cfg(not(feature = "no_simd"))]
pub mod inst_x86;
#[cfg(feature = "no_simd")]
pub mod inst_generic;
