// Instantiation of the contract families for the x86-64 backends.
use crate::nd::{self, any};
use crate::ops::*;
use crate::view::*;
use ppv_lite86::x86_64::*;
use ppv_lite86::*;

macro_rules! common_types {
    ($M:ty) => {
        use super::*;
        type M = $M;
        type U32x4 = <M as Machine>::u32x4;
        type U64x2 = <M as Machine>::u64x2;
        type U128x1 = <M as Machine>::u128x1;
        type U32x4x2 = <M as Machine>::u32x4x2;
        type U64x2x2 = <M as Machine>::u64x2x2;
        type U64x4 = <M as Machine>::u64x4;
        type U128x2 = <M as Machine>::u128x2;
        type U32x4x4 = <M as Machine>::u32x4x4;
        type U64x2x4 = <M as Machine>::u64x2x4;
        type U128x4 = <M as Machine>::u128x4;

        // ---- C12 ----
        harness!(c12_u32x4_bitops, bitops::<U32x4, 1>());
        harness!(c12_u64x2_bitops, bitops::<U64x2, 1>());
        harness!(c12_u128x1_bitops, bitops::<U128x1, 1>());
        harness!(c12_u32x4x2_bitops, bitops::<U32x4x2, 2>());
        harness!(c12_u64x2x2_bitops, bitops::<U64x2x2, 2>());
        harness!(c12_u64x4_bitops, bitops::<U64x4, 2>());
        harness!(c12_u128x2_bitops, bitops::<U128x2, 2>());
        harness!(c12_u32x4x4_bitops, bitops::<U32x4x4, 4>());
        harness!(c12_u64x2x4_bitops, bitops::<U64x2x4, 4>());
        harness!(c12_u128x4_bitops, bitops::<U128x4, 4>());

        harness!(c12_u32x4_arith, arith::<U32x4, 1>(32));
        harness!(c12_u64x2_arith, arith::<U64x2, 1>(64));
        harness!(c12_u32x4x2_arith, arith::<U32x4x2, 2>(32));
        harness!(c12_u64x2x2_arith, arith::<U64x2x2, 2>(64));
        harness!(c12_u64x4_arith, arith::<U64x4, 2>(64));
        harness!(c12_u32x4x4_arith, arith::<U32x4x4, 4>(32));
        harness!(c12_u64x2x4_arith, arith::<U64x2x4, 4>(64));
        harness!(c12_u128x1_bswap, bswap_only::<U128x1, 1>(128));
        harness!(c12_u128x2_bswap, bswap_only::<U128x2, 2>(128));
        harness!(c12_u128x4_bswap, bswap_only::<U128x4, 4>(128));

        harness!(c12_u32x4_rot32, rot32::<U32x4, 1>(32));
        harness!(c12_u64x2_rot32, rot32::<U64x2, 1>(64));
        harness!(c12_u128x1_rot32, rot32::<U128x1, 1>(128));
        harness!(c12_u32x4x2_rot32, rot32::<U32x4x2, 2>(32));
        harness!(c12_u64x2x2_rot32, rot32::<U64x2x2, 2>(64));
        harness!(c12_u64x4_rot32, rot32::<U64x4, 2>(64));
        harness!(c12_u128x2_rot32, rot32::<U128x2, 2>(128));
        harness!(c12_u32x4x4_rot32, rot32::<U32x4x4, 4>(32));
        harness!(c12_u64x2x4_rot32, rot32::<U64x2x4, 4>(64));
        harness!(c12_u128x4_rot32, rot32::<U128x4, 4>(128));

        harness!(c12_u64x2_rot64, rot64::<U64x2, 1>(64));
        harness!(c12_u128x1_rot64, rot64::<U128x1, 1>(128));
        harness!(c12_u64x2x2_rot64, rot64::<U64x2x2, 2>(64));
        harness!(c12_u64x4_rot64, rot64::<U64x4, 2>(64));
        harness!(c12_u128x2_rot64, rot64::<U128x2, 2>(128));
        harness!(c12_u64x2x4_rot64, rot64::<U64x2x4, 4>(64));
        harness!(c12_u128x4_rot64, rot64::<U128x4, 4>(128));

        harness!(c12_u32x4_words4, words4::<U32x4, 1>(32));
        harness!(c12_u64x4_words4, words4::<U64x4, 2>(64));
        harness!(c12_u32x4_lanewords4, lanewords4::<U32x4, 1>());
        harness!(c12_u32x4x2_lanewords4, lanewords4::<U32x4x2, 2>());
        harness!(c12_u32x4x4_lanewords4, lanewords4::<U32x4x4, 4>());

        harness!(c12_u128x1_swap64, swap64::<U128x1, 1>());
        harness!(c12_u128x2_swap64, swap64::<U128x2, 2>());
        harness!(c12_u128x4_swap64, swap64::<U128x4, 4>());

        // ---- C13 ----
        harness!(c13_u32x4_lanes, lanes_scalar::<U32x4, u32, 4, 1>());
        harness!(c13_u64x2_lanes, lanes_scalar::<U64x2, u64, 2, 1>());
        harness!(c13_u128x1_lanes, lanes_scalar::<U128x1, u128, 1, 1>());
        harness!(c13_u64x4_lanes, lanes_scalar::<U64x4, u64, 4, 2>());
        harness!(c13_u32x4x2_lanes, lanes_vec::<U32x4x2, U32x4, 2, 1, 2>());
        harness!(c13_u64x2x2_lanes, lanes_vec::<U64x2x2, U64x2, 2, 1, 2>());
        harness!(c13_u128x2_lanes, lanes_vec::<U128x2, U128x1, 2, 1, 2>());
        harness!(c13_u32x4x4_lanes, lanes_vec::<U32x4x4, U32x4, 4, 1, 4>());
        harness!(c13_u64x2x4_lanes, lanes_vec::<U64x2x4, U64x2, 4, 1, 4>());
        harness!(c13_u128x4_lanes, lanes_vec::<U128x4, U128x1, 4, 1, 4>());

        harness!(c13_u32x4_vec4, vec4_scalar::<U32x4, u32, 1>());
        harness!(c13_u64x2_vec2, vec2_scalar::<U64x2, u64, 1>());
        harness!(c13_u64x4_vec4, vec4_scalar::<U64x4, u64, 2>());
        harness!(c13_u32x4x2_vec2, vec2_vec::<U32x4x2, U32x4, 1, 2>());
        harness!(c13_u64x2x2_vec2, vec2_vec::<U64x2x2, U64x2, 1, 2>());
        harness!(c13_u128x2_vec2, vec2_vec::<U128x2, U128x1, 1, 2>());
        harness!(c13_u32x4x4_vec4, vec4_vec::<U32x4x4, U32x4, 1, 4>());
        harness!(c13_u64x2x4_vec4, vec4_vec::<U64x2x4, U64x2, 1, 4>());
        harness!(c13_u128x4_vec4, vec4_vec::<U128x4, U128x1, 1, 4>());

        harness!(c13_u32x4x4_transpose4, transpose4::<U32x4x4, U32x4>());
        harness!(c13_u32x4x4_to_scalars, to_scalars::<U32x4x4>());

        harness!(c13_u32x4_bytes, storebytes::<U32x4, 1, 16>(32));
        harness!(c13_u64x2_bytes, storebytes::<U64x2, 1, 16>(64));
        harness!(c13_u128x1_bytes, storebytes::<U128x1, 1, 16>(128));
        harness!(c13_u32x4x2_bytes, storebytes::<U32x4x2, 2, 32>(32));
        harness!(c13_u64x2x2_bytes, storebytes::<U64x2x2, 2, 32>(64));
        harness!(c13_u64x4_bytes, storebytes::<U64x4, 2, 32>(64));
        harness!(c13_u32x4x4_bytes, storebytes::<U32x4x4, 4, 64>(32));

        harness!(c13_u128x1_into_u32x4, convert::<U128x1, U32x4, 1>());
        harness!(c13_u128x1_into_u64x2, convert::<U128x1, U64x2, 1>());
        harness!(c13_u128x2_into_u32x4x2, convert::<U128x2, U32x4x2, 2>());
        harness!(c13_u128x2_into_u64x2x2, convert::<U128x2, U64x2x2, 2>());
        harness!(c13_u128x2_into_u64x4, convert::<U128x2, U64x4, 2>());
        harness!(c13_u128x4_into_u32x4x4, convert::<U128x4, U32x4x4, 4>());
        harness!(c13_u128x4_into_u64x2x4, convert::<U128x4, U64x2x4, 4>());

        harness!(c13_machine_wrappers, machine_wrappers::<M>());
        harness!(c13_u32x4_unsafe_from_eq, unsafe_from_eq::<U32x4, u32, 4, 1>());
        harness!(c13_u64x2_unsafe_from_eq, unsafe_from_eq::<U64x2, u64, 2, 1>());
    };
}

pub mod sse2 { common_types!(ppv_lite86::x86_64::SSE2);
    harness!(c13_u128x2_bytes, storebytes::<U128x2, 2, 32>(128));
    harness!(c13_u64x2x4_bytes, storebytes::<U64x2x4, 4, 64>(64));
    harness!(c13_u128x4_bytes, storebytes::<U128x4, 4, 64>(128));
}
pub mod ssse3 { common_types!(ppv_lite86::x86_64::SSSE3);
    harness!(c13_u128x2_bytes, storebytes::<U128x2, 2, 32>(128));
    harness!(c13_u64x2x4_bytes, storebytes::<U64x2x4, 4, 64>(64));
    harness!(c13_u128x4_bytes, storebytes::<U128x4, 4, 64>(128));
}
pub mod sse41 { common_types!(ppv_lite86::x86_64::SSE41);
    harness!(c13_u128x2_bytes, storebytes::<U128x2, 2, 32>(128));
    harness!(c13_u64x2x4_bytes, storebytes::<U64x2x4, 4, 64>(64));
    harness!(c13_u128x4_bytes, storebytes::<U128x4, 4, 64>(128));
}
pub mod avx2 { common_types!(ppv_lite86::x86_64::AVX2);
    harness!(c13_u128x2_bytes, storebytes::<U128x2, 2, 32>(128));
    harness!(c13_u64x2x4_bytes, storebytes::<U64x2x4, 4, 64>(64));
    harness!(c13_u128x4_bytes, storebytes::<U128x4, 4, 64>(128));
}

// ---- storage unions: little-endian word packing between the 32/64/128-bit views (C13) ----
pub mod storage {
    use super::*;
    harness!(c13_vec128_views, {
        let w: [u32; 4] = any();
        let s = vec128_storage::from(w);
        let sel: u8 = any();
        match sel {
            0 => { let r: [u32; 4] = s.into(); obl!(r == w, "vec128_u32x4"); }
            1 => { let r: [u64; 2] = s.into(); obl!(r[0] as u128 == fword([w], 64, 0) && r[1] as u128 == fword([w], 64, 1), "vec128_u64x2"); }
            2 => { let r: [u128; 1] = s.into(); obl!(r[0] == lane128(w), "vec128_u128x1"); }
            3 => { let r: &[u32; 4] = (&s).into(); obl!(*r == w, "vec128_ref_u32x4"); }
            4 => { let w2: [u32; 4] = any(); let s2 = vec128_storage::from(w2); obl!((s == s2) == (w == w2), "vec128_eq"); }
            5 => { let d = vec128_storage::default(); let r: [u32; 4] = d.into(); obl!(r == [0; 4], "vec128_default"); }
            _ => {}
        }
    });
    harness!(c13_vec256_views, {
        let a: View<2> = any();
        let s = vec256_storage::new128([vec128_storage::from(a[0]), vec128_storage::from(a[1])]);
        let sel: u8 = any();
        match sel {
            0 => { let r: [u32; 8] = s.into(); let mut ok = true; let mut j = 0; while j < 8 { ok &= r[j] as u128 == fword(a, 32, j as u32); j += 1; } obl!(ok, "vec256_u32x8"); }
            1 => { let r: [u64; 4] = s.into(); let mut ok = true; let mut j = 0; while j < 4 { ok &= r[j] as u128 == fword(a, 64, j as u32); j += 1; } obl!(ok, "vec256_u64x4"); }
            2 => { let r: [u128; 2] = s.into(); obl!(r[0] == lane128(a[0]) && r[1] == lane128(a[1]), "vec256_u128x2"); }
            3 => { let p = s.split128(); let (x, y): ([u32; 4], [u32; 4]) = (p[0].into(), p[1].into()); obl!(x == a[0] && y == a[1], "vec256_split128"); }
            4 => { let q: [u64; 4] = any(); let t = vec256_storage::from(q); let r: [u64; 4] = t.into(); obl!(r == q, "vec256_from_u64x4"); }
            5 => { let b: View<2> = any(); let t = vec256_storage::new128([vec128_storage::from(b[0]), vec128_storage::from(b[1])]); obl!((s == t) == eqv(a, b), "vec256_eq"); }
            _ => {}
        }
    });
    harness!(c13_vec512_views, {
        let a: View<4> = any();
        let s = vec512_storage::new128([vec128_storage::from(a[0]), vec128_storage::from(a[1]), vec128_storage::from(a[2]), vec128_storage::from(a[3])]);
        let sel: u8 = any();
        match sel {
            0 => { let r: [u32; 16] = s.into(); let mut ok = true; let mut j = 0; while j < 16 { ok &= r[j] as u128 == fword(a, 32, j as u32); j += 1; } obl!(ok, "vec512_u32x16"); }
            1 => { let r: [u64; 8] = s.into(); let mut ok = true; let mut j = 0; while j < 8 { ok &= r[j] as u128 == fword(a, 64, j as u32); j += 1; } obl!(ok, "vec512_u64x8"); }
            2 => { let r: [u128; 4] = s.into(); obl!(r[0] == lane128(a[0]) && r[1] == lane128(a[1]) && r[2] == lane128(a[2]) && r[3] == lane128(a[3]), "vec512_u128x4"); }
            3 => { let p = s.split128(); let mut ok = true; let mut j = 0; while j < 4 { let x: [u32; 4] = p[j].into(); ok &= x == a[j]; j += 1; } obl!(ok, "vec512_split128"); }
            4 => { let b: View<4> = any(); let t = vec512_storage::new128([vec128_storage::from(b[0]), vec128_storage::from(b[1]), vec128_storage::from(b[2]), vec128_storage::from(b[3])]); obl!((s == t) == eqv(a, b), "vec512_eq"); }
            _ => {}
        }
    });
}
