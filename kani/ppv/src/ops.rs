// Contract checks, generic over the vector type.  Each function is a family of obligations selected
// by a nondeterministic selector, so every operation is verified on its own path (a panic inside one
// operation cannot hide another).  `bits` is the word size the type's name states.
use crate::nd::{self, any};
use crate::view::*;
use core::ops::*;
use ppv_lite86::*;

// ---------------------------------------------------------------- C12

pub fn bitops<V: BitOps0 + Vw<L>, const L: usize>() {
    let a: View<L> = any();
    let b: View<L> = any();
    let (va, vb) = (V::mk(a), V::mk(b));
    let sel: u8 = any();
    match sel {
        0 => obl!(eqv((va ^ vb).rd(), map2(a, b, 32, |x, y| x ^ y)), "xor"),
        1 => obl!(eqv((va & vb).rd(), map2(a, b, 32, |x, y| x & y)), "and"),
        2 => obl!(eqv((va | vb).rd(), map2(a, b, 32, |x, y| x | y)), "or"),
        3 => obl!(eqv((!va).rd(), map1(a, 32, |x| !x)), "not"),
        4 => obl!(eqv(va.andnot(vb).rd(), map2(a, b, 32, |x, y| !x & y)), "andnot"),
        5 => {
            let mut t = va;
            t ^= vb;
            obl!(eqv(t.rd(), map2(a, b, 32, |x, y| x ^ y)), "xor_assign");
        }
        _ => {}
    }
}

pub fn arith<V: ArithOps + Vw<L>, const L: usize>(bits: u32) {
    let a: View<L> = any();
    let b: View<L> = any();
    let (va, vb) = (V::mk(a), V::mk(b));
    let sel: u8 = any();
    match sel {
        0 => obl!(eqv((va + vb).rd(), map2(a, b, bits, |x, y| add(x, y, bits))), "add"),
        1 => {
            let mut t = va;
            t += vb;
            obl!(eqv(t.rd(), map2(a, b, bits, |x, y| add(x, y, bits))), "add_assign");
        }
        2 => obl!(eqv(va.bswap().rd(), map1(a, bits, |x| bswap(x, bits))), "bswap"),
        _ => {}
    }
}

pub fn bswap_only<V: BSwap + Vw<L>, const L: usize>(bits: u32) {
    let a: View<L> = any();
    let va = V::mk(a);
    obl!(eqv(va.bswap().rd(), map1(a, bits, |x| bswap(x, bits))), "bswap");
}

pub fn rot32<V: RotateEachWord32 + Vw<L>, const L: usize>(bits: u32) {
    let a: View<L> = any();
    let va = V::mk(a);
    let sel: u8 = any();
    match sel {
        0 => obl!(eqv(va.rotate_each_word_right7().rd(), map1(a, bits, |x| rotr(x, bits, 7))), "rotate_each_word_right7"),
        1 => obl!(eqv(va.rotate_each_word_right8().rd(), map1(a, bits, |x| rotr(x, bits, 8))), "rotate_each_word_right8"),
        2 => obl!(eqv(va.rotate_each_word_right11().rd(), map1(a, bits, |x| rotr(x, bits, 11))), "rotate_each_word_right11"),
        3 => obl!(eqv(va.rotate_each_word_right12().rd(), map1(a, bits, |x| rotr(x, bits, 12))), "rotate_each_word_right12"),
        4 => obl!(eqv(va.rotate_each_word_right16().rd(), map1(a, bits, |x| rotr(x, bits, 16))), "rotate_each_word_right16"),
        5 => obl!(eqv(va.rotate_each_word_right20().rd(), map1(a, bits, |x| rotr(x, bits, 20))), "rotate_each_word_right20"),
        6 => obl!(eqv(va.rotate_each_word_right24().rd(), map1(a, bits, |x| rotr(x, bits, 24))), "rotate_each_word_right24"),
        7 => obl!(eqv(va.rotate_each_word_right25().rd(), map1(a, bits, |x| rotr(x, bits, 25))), "rotate_each_word_right25"),
        _ => {}
    }
}

pub fn rot64<V: RotateEachWord64 + Vw<L>, const L: usize>(bits: u32) {
    let a: View<L> = any();
    let va = V::mk(a);
    obl!(eqv(va.rotate_each_word_right32().rd(), map1(a, bits, |x| rotr(x, bits, 32))), "rotate_each_word_right32");
}

/// shuffleABCD: word 0 moves to position A, word 1 to B, word 2 to C, word 3 to D
fn perm4<const L: usize>(a: View<L>, bits: u32, base: u32, p: [u32; 4]) -> View<L> {
    let mut r = a;
    let mut j = 0;
    while j < 4 {
        r = set_fword(r, bits, base + p[j as usize], fword(a, bits, base + j));
        j += 1;
    }
    r
}

pub fn words4<V: Words4 + Vw<L>, const L: usize>(bits: u32) {
    let a: View<L> = any();
    let va = V::mk(a);
    let sel: u8 = any();
    match sel {
        0 => obl!(eqv(va.shuffle1230().rd(), perm4(a, bits, 0, [1, 2, 3, 0])), "shuffle1230"),
        1 => obl!(eqv(va.shuffle2301().rd(), perm4(a, bits, 0, [2, 3, 0, 1])), "shuffle2301"),
        2 => obl!(eqv(va.shuffle3012().rd(), perm4(a, bits, 0, [3, 0, 1, 2])), "shuffle3012"),
        _ => {}
    }
}

fn lane_perm<const L: usize>(a: View<L>, p: [u32; 4]) -> View<L> {
    let mut r = a;
    let mut l = 0;
    while l < L as u32 {
        r = {
            let mut t = r;
            let mut j = 0;
            while j < 4 {
                t = set_fword(t, 32, 4 * l + p[j as usize], fword(a, 32, 4 * l + j));
                j += 1;
            }
            t
        };
        l += 1;
    }
    r
}

pub fn lanewords4<V: LaneWords4 + Vw<L>, const L: usize>() {
    let a: View<L> = any();
    let va = V::mk(a);
    let sel: u8 = any();
    match sel {
        0 => obl!(eqv(va.shuffle_lane_words1230().rd(), lane_perm(a, [1, 2, 3, 0])), "shuffle_lane_words1230"),
        1 => obl!(eqv(va.shuffle_lane_words2301().rd(), lane_perm(a, [2, 3, 0, 1])), "shuffle_lane_words2301"),
        2 => obl!(eqv(va.shuffle_lane_words3012().rd(), lane_perm(a, [3, 0, 1, 2])), "shuffle_lane_words3012"),
        _ => {}
    }
}

pub fn swap64<V: Swap64 + Vw<L>, const L: usize>() {
    let a: View<L> = any();
    let va = V::mk(a);
    let sel: u8 = any();
    match sel {
        0 => obl!(eqv(va.swap1().rd(), map1(a, 128, |x| swapn(x, 1))), "swap1"),
        1 => obl!(eqv(va.swap2().rd(), map1(a, 128, |x| swapn(x, 2))), "swap2"),
        2 => obl!(eqv(va.swap4().rd(), map1(a, 128, |x| swapn(x, 4))), "swap4"),
        3 => obl!(eqv(va.swap8().rd(), map1(a, 128, |x| swapn(x, 8))), "swap8"),
        4 => obl!(eqv(va.swap16().rd(), map1(a, 128, |x| swapn(x, 16))), "swap16"),
        5 => obl!(eqv(va.swap32().rd(), map1(a, 128, |x| swapn(x, 32))), "swap32"),
        6 => obl!(eqv(va.swap64().rd(), map1(a, 128, |x| swapn(x, 64))), "swap64"),
        _ => {}
    }
}

// ---------------------------------------------------------------- C13

/// scalar words <-> vector (MultiLane<[T; N]> with T a machine word)
pub trait Wd: Copy + nd::Nd {
    const BITS: u32;
    fn to128(self) -> u128;
    fn from128(x: u128) -> Self;
}
impl Wd for u32 { const BITS: u32 = 32; fn to128(self) -> u128 { self as u128 } fn from128(x: u128) -> Self { x as u32 } }
impl Wd for u64 { const BITS: u32 = 64; fn to128(self) -> u128 { self as u128 } fn from128(x: u128) -> Self { x as u64 } }
impl Wd for u128 { const BITS: u32 = 128; fn to128(self) -> u128 { self } fn from128(x: u128) -> Self { x } }

pub fn lanes_scalar<V: MultiLane<[T; N]> + Vw<L>, T: Wd, const N: usize, const L: usize>() {
    let sel: u8 = any();
    match sel {
        0 => {
            let a: View<L> = any();
            let xs = V::mk(a).to_lanes();
            let mut ok = true;
            let mut j = 0;
            while j < N {
                ok &= xs[j].to128() == fword(a, T::BITS, j as u32);
                j += 1;
            }
            obl!(ok, "to_lanes");
        }
        1 => {
            let xs: [T; N] = any();
            let v = V::from_lanes(xs).rd();
            let mut ok = true;
            let mut j = 0;
            while j < N {
                ok &= xs[j].to128() == fword(v, T::BITS, j as u32);
                j += 1;
            }
            obl!(ok, "from_lanes");
        }
        2 => {
            let xs: [T; N] = any();
            let ys = V::from_lanes(xs).to_lanes();
            let mut ok = true;
            let mut j = 0;
            while j < N {
                ok &= xs[j].to128() == ys[j].to128();
                j += 1;
            }
            obl!(ok, "to_lanes_from_lanes_roundtrip");
        }
        _ => {}
    }
}

/// vector-of-vectors: MultiLane<[S; N]> where S covers K 128-bit lanes (L == N*K)
pub fn lanes_vec<V: MultiLane<[S; N]> + Vw<L>, S: Vw<K>, const N: usize, const K: usize, const L: usize>() {
    let a: View<L> = any();
    let sel: u8 = any();
    match sel {
        0 => {
            let xs = V::mk(a).to_lanes();
            let mut ok = true;
            let mut j = 0;
            while j < N {
                let s = xs[j].rd();
                let mut k = 0;
                while k < K {
                    ok &= eqv([s[k]], [a[j * K + k]]);
                    k += 1;
                }
                j += 1;
            }
            obl!(ok, "to_lanes");
        }
        1 => {
            let xs: [S; N] = core::array::from_fn(|j| {
                let mut s = [[0u32; 4]; K];
                let mut k = 0;
                while k < K {
                    s[k] = a[j * K + k];
                    k += 1;
                }
                S::mk(s)
            });
            obl!(eqv(V::from_lanes(xs).rd(), a), "from_lanes");
        }
        _ => {}
    }
}

pub fn vec2_scalar<V: Vec2<T> + Vw<L>, T: Wd, const L: usize>() {
    let a: View<L> = any();
    let va = V::mk(a);
    let i: u32 = any();
    nd::assume(i < 2);
    let sel: u8 = any();
    match sel {
        0 => obl!(Vec2::<T>::extract(va, i).to128() == fword(a, T::BITS, i), "extract"),
        1 => {
            let x: T = any();
            obl!(eqv(Vec2::<T>::insert(va, x, i).rd(), set_fword(a, T::BITS, i, x.to128())), "insert");
        }
        _ => {}
    }
}
pub fn vec4_scalar<V: Vec4<T> + Vw<L>, T: Wd, const L: usize>() {
    let a: View<L> = any();
    let va = V::mk(a);
    let i: u32 = any();
    nd::assume(i < 4);
    let sel: u8 = any();
    match sel {
        0 => obl!(Vec4::<T>::extract(va, i).to128() == fword(a, T::BITS, i), "extract"),
        1 => {
            let x: T = any();
            obl!(eqv(Vec4::<T>::insert(va, x, i).rd(), set_fword(a, T::BITS, i, x.to128())), "insert");
        }
        _ => {}
    }
}

fn sub<const L: usize, const K: usize>(a: View<L>, j: usize) -> View<K> {
    let mut s = [[0u32; 4]; K];
    let mut k = 0;
    while k < K {
        s[k] = a[j * K + k];
        k += 1;
    }
    s
}
fn setsub<const L: usize, const K: usize>(a: View<L>, j: usize, s: View<K>) -> View<L> {
    let mut r = a;
    let mut k = 0;
    while k < K {
        r[j * K + k] = s[k];
        k += 1;
    }
    r
}

pub fn vec2_vec<V: Vec2<S> + Vw<L>, S: Vw<K>, const K: usize, const L: usize>() {
    let a: View<L> = any();
    let va = V::mk(a);
    let i: u32 = any();
    nd::assume(i < 2);
    let sel: u8 = any();
    match sel {
        0 => obl!(eqv(Vec2::<S>::extract(va, i).rd(), sub::<L, K>(a, i as usize)), "extract"),
        1 => {
            let s: View<K> = any();
            obl!(eqv(Vec2::<S>::insert(va, S::mk(s), i).rd(), setsub::<L, K>(a, i as usize, s)), "insert");
        }
        _ => {}
    }
}
pub fn vec4_vec<V: Vec4<S> + Vw<L>, S: Vw<K>, const K: usize, const L: usize>() {
    let a: View<L> = any();
    let va = V::mk(a);
    let i: u32 = any();
    nd::assume(i < 4);
    let sel: u8 = any();
    match sel {
        0 => obl!(eqv(Vec4::<S>::extract(va, i).rd(), sub::<L, K>(a, i as usize)), "extract"),
        1 => {
            let s: View<K> = any();
            obl!(eqv(Vec4::<S>::insert(va, S::mk(s), i).rd(), setsub::<L, K>(a, i as usize, s)), "insert");
        }
        _ => {}
    }
}

pub fn transpose4<V: Vec4Ext<S> + Vw<4>, S>() {
    let a: View<4> = any();
    let b: View<4> = any();
    let c: View<4> = any();
    let d: View<4> = any();
    let (r0, r1, r2, r3) = V::transpose4(V::mk(a), V::mk(b), V::mk(c), V::mk(d));
    let (r0, r1, r2, r3) = (r0.rd(), r1.rd(), r2.rd(), r3.rd());
    let ok = eqv(r0, [a[0], b[0], c[0], d[0]])
        && eqv(r1, [a[1], b[1], c[1], d[1]])
        && eqv(r2, [a[2], b[2], c[2], d[2]])
        && eqv(r3, [a[3], b[3], c[3], d[3]]);
    obl!(ok, "transpose4");
}

pub fn to_scalars<V: Vector<[u32; 16]> + Vw<4>>() {
    let a: View<4> = any();
    let s = V::mk(a).to_scalars();
    let mut ok = true;
    let mut j = 0;
    while j < 16 {
        ok &= s[j] == a[j / 4][j % 4];
        j += 1;
    }
    obl!(ok, "to_scalars");
}

/// byte I/O on a buffer of exactly N = 16*L bytes; `bits` = word size for the big-endian forms
pub fn storebytes<V: StoreBytes + Vw<L>, const L: usize, const N: usize>(bits: u32) {
    let sel: u8 = any();
    match sel {
        0 => {
            let b: [u8; N] = any();
            let v = unsafe { V::unsafe_read_le(&b) };
            obl!(eqv(v.rd(), from_le_bytes::<L, N>(b)), "read_le");
        }
        1 => {
            let b: [u8; N] = any();
            let v = unsafe { V::unsafe_read_be(&b) };
            obl!(eqv(v.rd(), map1(from_le_bytes::<L, N>(b), bits, |x| bswap(x, bits))), "read_be");
        }
        2 => {
            let a: View<L> = any();
            let mut out = [0u8; N];
            V::mk(a).write_le(&mut out);
            let e = le_bytes::<L, N>(a);
            let mut ok = true;
            let mut i = 0;
            while i < N {
                ok &= out[i] == e[i];
                i += 1;
            }
            obl!(ok, "write_le");
        }
        3 => {
            let a: View<L> = any();
            let mut out = [0u8; N];
            V::mk(a).write_be(&mut out);
            let e = le_bytes::<L, N>(map1(a, bits, |x| bswap(x, bits)));
            let mut ok = true;
            let mut i = 0;
            while i < N {
                ok &= out[i] == e[i];
                i += 1;
            }
            obl!(ok, "write_be");
        }
        _ => {}
    }
}

/// UnsafeFrom<[T; N]> (building a vector from words) and PartialEq on the x86 vector types
pub fn unsafe_from_eq<V: UnsafeFrom<[T; N]> + PartialEq + Vw<L>, T: Wd, const N: usize, const L: usize>() {
    let sel: u8 = any();
    match sel {
        0 => {
            let xs: [T; N] = any();
            let v = unsafe { V::unsafe_from(xs) }.rd();
            let mut ok = true;
            let mut j = 0;
            while j < N { ok &= xs[j].to128() == fword(v, T::BITS, j as u32); j += 1; }
            obl!(ok, "unsafe_from_words");
        }
        1 => {
            let a: View<L> = any();
            let b: View<L> = any();
            obl!((V::mk(a) == V::mk(b)) == eqv(a, b), "partial_eq_iff_equal_words");
        }
        _ => {}
    }
}

/// value-preserving conversion between vector types of the same width
pub fn convert<A: Vw<L> + Into<B>, B: Vw<L>, const L: usize>() {
    let a: View<L> = any();
    let b: B = A::mk(a).into();
    obl!(eqv(b.rd(), a), "into");
}

/// Machine::vec / unpack / read_le / read_be are thin wrappers: check them once per backend on u32x4
pub fn machine_wrappers<M: Machine>() {
    let m = unsafe { M::instance() };
    let sel: u8 = any();
    match sel {
        0 => {
            let xs: [u32; 4] = any();
            let v: M::u32x4 = m.vec(xs);
            obl!(eqv(Vw::<1>::rd(v), [xs]), "machine_vec");
        }
        1 => {
            let xs: [u32; 4] = any();
            let v: M::u32x4 = m.unpack(vec128_storage::from(xs));
            obl!(eqv(Vw::<1>::rd(v), [xs]), "machine_unpack");
        }
        2 => {
            let b: [u8; 16] = any();
            let v: M::u32x4 = m.read_le(&b);
            obl!(eqv(Vw::<1>::rd(v), from_le_bytes::<1, 16>(b)), "machine_read_le");
        }
        3 => {
            let b: [u8; 16] = any();
            let v: M::u32x4 = m.read_be(&b);
            obl!(eqv(Vw::<1>::rd(v), map1(from_le_bytes::<1, 16>(b), 32, |x| bswap(x, 32))), "machine_read_be");
        }
        4 => {
            let xs: [u32; 4] = any();
            let ys: [u32; 4] = any();
            let zs: [u32; 4] = any();
            let ws: [u32; 4] = any();
            let lanes: [M::u32x4; 4] = [m.vec(xs), m.vec(ys), m.vec(zs), m.vec(ws)];
            let v: M::u32x4x4 = lanes.vzip();
            obl!(eqv(Vw::<4>::rd(v), [xs, ys, zs, ws]), "vzip");
        }
        _ => {}
    }
}

// ---------------------------------------------------------------- harness declaration
#[cfg(all(kani, not(feature = "no_simd")))]
#[macro_export]
macro_rules! harness {
    ($name:ident, $body:expr) => {
        #[kani::proof]
        #[kani::stub(core::arch::x86_64::_mm_shuffle_epi8, crate::models::mm_shuffle_epi8)]
        #[kani::stub(core::arch::x86_64::_mm_load_si128, crate::models::forbid_mm_load_si128)]
        #[kani::stub(core::arch::x86_64::_mm_store_si128, crate::models::forbid_mm_store_si128)]
        #[kani::stub(core::arch::x86_64::_mm256_load_si256, crate::models::forbid_mm256_load_si256)]
        #[kani::stub(core::arch::x86_64::_mm256_store_si256, crate::models::forbid_mm256_store_si256)]
        #[kani::stub(core::arch::x86_64::_mm_stream_si128, crate::models::forbid_mm_stream_si128)]
        #[kani::stub(core::arch::x86_64::_mm256_shuffle_epi8, crate::models::mm256_shuffle_epi8)]
        #[kani::stub(core::arch::x86_64::_mm_packus_epi16, crate::models::mm_packus_epi16)]
        #[kani::stub(core::arch::x86_64::_mm_add_epi32, crate::models::mm_add_epi32)]
        #[kani::stub(core::arch::x86_64::_mm_add_epi64, crate::models::mm_add_epi64)]
        #[kani::stub(core::arch::x86_64::_mm256_add_epi32, crate::models::mm256_add_epi32)]
        pub fn $name() {
            $body
        }
    };
}
#[cfg(all(kani, feature = "no_simd"))]
#[macro_export]
macro_rules! harness {
    ($name:ident, $body:expr) => {
        #[kani::proof]
        pub fn $name() {
            $body
        }
    };
}
#[cfg(not(kani))]
#[macro_export]
macro_rules! harness {
    ($name:ident, $body:expr) => {
        pub fn $name() {
            $body
        }
    };
}
