// Nondeterminism shim shared by every harness crate.
// Under `cfg(kani)` values come from kani::any(); natively they are the next bytes of the replay
// buffer (filled by the `replay` binary from a replays/*.json file), so the same harness body runs
// against the real crate built by stock rustc.
#[cfg(not(kani))]
pub mod rt {
    use std::cell::RefCell;
    thread_local! { pub static BUF: RefCell<(Vec<u8>, usize)> = RefCell::new((Vec::new(), 0)); }
    pub fn load(bytes: Vec<u8>) { BUF.with(|b| *b.borrow_mut() = (bytes, 0)); }
    pub fn next(n: usize, out: &mut [u8]) {
        BUF.with(|b| {
            let mut b = b.borrow_mut();
            for i in 0..n {
                let p = b.1;
                out[i] = if p < b.0.len() { b.0[p] } else { 0 };
                b.1 = p + 1;
            }
        });
    }
}

#[cfg(kani)]
pub trait Nd: Sized + kani::Arbitrary {
    fn nd() -> Self;
}
#[cfg(not(kani))]
pub trait Nd: Sized {
    fn nd() -> Self;
}
macro_rules! nd_prim {
    ($($t:ty),*) => {$(
        impl Nd for $t {
            #[cfg(kani)]
            #[inline(always)]
            fn nd() -> Self { kani::any() }
            #[cfg(not(kani))]
            fn nd() -> Self {
                let mut b = [0u8; core::mem::size_of::<$t>()];
                rt::next(core::mem::size_of::<$t>(), &mut b);
                <$t>::from_le_bytes(b)
            }
        }
    )*};
}
nd_prim!(u8, u16, u32, u64, u128, usize, i8, i16, i32, i64, i128, isize);
impl Nd for bool {
    #[cfg(kani)]
    #[inline(always)]
    fn nd() -> Self { kani::any() }
    #[cfg(not(kani))]
    fn nd() -> Self { u8::nd() & 1 == 1 }
}
#[cfg(kani)]
impl<T: Nd, const N: usize> Nd for [T; N] {
    #[inline(always)]
    fn nd() -> Self { kani::any() }
}
#[cfg(not(kani))]
impl<T: Nd, const N: usize> Nd for [T; N] {
    fn nd() -> Self { core::array::from_fn(|_| T::nd()) }
}

#[inline(always)]
pub fn any<T: Nd>() -> T { T::nd() }

#[cfg(kani)]
#[inline(always)]
pub fn assume(c: bool) { kani::assume(c) }
#[cfg(not(kani))]
pub fn assume(c: bool) {
    if !c {
        println!("REPLAY-ASSUME-VIOLATED");
        std::process::exit(3);
    }
}

/// Named obligation: the driver recognises the "OBL " prefix in CBMC's property table.
#[macro_export]
macro_rules! obl {
    ($cond:expr, $name:literal) => {
        { assert!($cond, concat!("OBL ", $name)) }
    };
}

#[cfg(kani)]
#[macro_export]
macro_rules! reach {
    ($name:literal) => { kani::cover!(true, $name); };
}
#[cfg(not(kani))]
#[macro_export]
macro_rules! reach {
    ($name:literal) => {};
}
