// Scalar word view of a vector: L lanes of 128 bits, each as four little-endian u32 words.
// All specifications are written over this view with u128 as the universal word container.
use ppv_lite86::*;

pub type View<const L: usize> = [[u32; 4]; L];

pub trait Vw<const L: usize>: Copy {
    fn mk(w: View<L>) -> Self;
    fn rd(self) -> View<L>;
}
#[inline(always)]
fn s128(w: [u32; 4]) -> vec128_storage { vec128_storage::from(w) }
#[inline(always)]
fn r128(s: vec128_storage) -> [u32; 4] { s.into() }

impl<V: Copy + Store<vec128_storage> + Into<vec128_storage>> Vw<1> for V {
    #[inline(always)]
    fn mk(w: View<1>) -> Self { unsafe { V::unpack(s128(w[0])) } }
    #[inline(always)]
    fn rd(self) -> View<1> { [r128(self.into())] }
}
impl<V: Copy + Store<vec256_storage> + Into<vec256_storage>> Vw<2> for V {
    #[inline(always)]
    fn mk(w: View<2>) -> Self { unsafe { V::unpack(vec256_storage::new128([s128(w[0]), s128(w[1])])) } }
    #[inline(always)]
    fn rd(self) -> View<2> { let s: vec256_storage = self.into(); let p = s.split128(); [r128(p[0]), r128(p[1])] }
}
impl<V: Copy + Store<vec512_storage> + Into<vec512_storage>> Vw<4> for V {
    #[inline(always)]
    fn mk(w: View<4>) -> Self {
        unsafe { V::unpack(vec512_storage::new128([s128(w[0]), s128(w[1]), s128(w[2]), s128(w[3])])) }
    }
    #[inline(always)]
    fn rd(self) -> View<4> {
        let s: vec512_storage = self.into();
        let p = s.split128();
        [r128(p[0]), r128(p[1]), r128(p[2]), r128(p[3])]
    }
}

#[inline(always)]
pub fn lane128(w: [u32; 4]) -> u128 {
    (w[0] as u128) | ((w[1] as u128) << 32) | ((w[2] as u128) << 64) | ((w[3] as u128) << 96)
}
#[inline(always)]
pub fn unlane128(x: u128) -> [u32; 4] { [x as u32, (x >> 32) as u32, (x >> 64) as u32, (x >> 96) as u32] }
#[inline(always)]
pub fn mask(bits: u32) -> u128 { if bits >= 128 { !0 } else { (1u128 << bits) - 1 } }

/// word i (of `bits` bits) of a lane
#[inline(always)]
pub fn word(l: [u32; 4], bits: u32, i: u32) -> u128 { (lane128(l) >> (bits * i)) & mask(bits) }

/// apply f to every `bits`-bit word of every lane
pub fn map1<const L: usize>(v: View<L>, bits: u32, f: impl Fn(u128) -> u128) -> View<L> {
    let mut r = [[0u32; 4]; L];
    let n = 128 / bits;
    let mut l = 0;
    while l < L {
        let mut acc = 0u128;
        let mut i = 0;
        while i < n {
            acc |= (f(word(v[l], bits, i)) & mask(bits)) << (bits * i);
            i += 1;
        }
        r[l] = unlane128(acc);
        l += 1;
    }
    r
}
pub fn map2<const L: usize>(a: View<L>, b: View<L>, bits: u32, f: impl Fn(u128, u128) -> u128) -> View<L> {
    let mut r = [[0u32; 4]; L];
    let n = 128 / bits;
    let mut l = 0;
    while l < L {
        let mut acc = 0u128;
        let mut i = 0;
        while i < n {
            acc |= (f(word(a[l], bits, i), word(b[l], bits, i)) & mask(bits)) << (bits * i);
            i += 1;
        }
        r[l] = unlane128(acc);
        l += 1;
    }
    r
}
#[inline(always)]
pub fn rotr(x: u128, bits: u32, k: u32) -> u128 { ((x >> k) | (x << (bits - k))) & mask(bits) }
#[inline(always)]
pub fn add(x: u128, y: u128, bits: u32) -> u128 { x.wrapping_add(y) & mask(bits) }
pub fn bswap(x: u128, bits: u32) -> u128 {
    let n = bits / 8;
    let mut r = 0u128;
    let mut i = 0;
    while i < n {
        r |= ((x >> (8 * i)) & 0xff) << (8 * (n - 1 - i));
        i += 1;
    }
    r
}
/// exchange adjacent n-bit groups of a 128-bit lane
pub fn swapn(x: u128, n: u32) -> u128 {
    // low-group mask: n ones, n zeros, repeated
    let mut m = 0u128;
    let mut i = 0;
    while i < 128 {
        m |= mask(n) << i;
        i += 2 * n;
    }
    ((x & m) << n) | ((x >> n) & m)
}
pub fn eqv<const L: usize>(a: View<L>, b: View<L>) -> bool {
    let mut ok = true;
    let mut l = 0;
    while l < L {
        ok &= a[l][0] == b[l][0] && a[l][1] == b[l][1] && a[l][2] == b[l][2] && a[l][3] == b[l][3];
        l += 1;
    }
    ok
}
/// flat index of `bits`-bit word j over the whole vector
#[inline(always)]
pub fn fword<const L: usize>(v: View<L>, bits: u32, j: u32) -> u128 {
    let per = 128 / bits;
    word(v[(j / per) as usize], bits, j % per)
}
pub fn set_fword<const L: usize>(v: View<L>, bits: u32, j: u32, x: u128) -> View<L> {
    let per = 128 / bits;
    let l = (j / per) as usize;
    let sh = bits * (j % per);
    let mut r = v;
    let cur = lane128(v[l]);
    let new = (cur & !(mask(bits) << sh)) | ((x & mask(bits)) << sh);
    r[l] = unlane128(new);
    r
}
/// little-endian bytes of the whole vector (word packing is little-endian, so this is independent of
/// the word size)
pub fn le_bytes<const L: usize, const N: usize>(v: View<L>) -> [u8; N] {
    let mut r = [0u8; N];
    let mut i = 0;
    while i < N {
        r[i] = (v[i / 16][(i % 16) / 4] >> (8 * (i % 4))) as u8;
        i += 1;
    }
    r
}
pub fn from_le_bytes<const L: usize, const N: usize>(b: [u8; N]) -> View<L> {
    let mut r = [[0u32; 4]; L];
    let mut i = 0;
    while i < N {
        r[i / 16][(i % 16) / 4] |= (b[i] as u32) << (8 * (i % 4));
        i += 1;
    }
    r
}
