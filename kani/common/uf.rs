// Uninterpreted-function abstraction of a callee (DESIGN.md 3.2): the stub logs its arguments and
// returns fresh symbolic values; the specification side replays the log, asserting that the k-th
// call received the arguments the specification prescribes.  Sound for every function the callee
// could be, in particular for the one its own contract (proved separately) says it is.
#![allow(dead_code, static_mut_refs)]
use crate::nd::any;

pub type Rows = [[u32; 4]; 4];
pub const MAXC: usize = 96;
pub static mut UF_IN: [Rows; MAXC] = [[[0; 4]; 4]; MAXC];
pub static mut UF_OUT: [Rows; MAXC] = [[[0; 4]; 4]; MAXC];
pub static mut UF_N: usize = 0;
pub static mut SPEC_K: usize = 0;

pub fn uf_rows(r: Rows) -> Rows {
    unsafe {
        let k = UF_N;
        assert!(k < MAXC);
        UF_IN[k] = r;
        let o: Rows = any();
        UF_OUT[k] = o;
        UF_N = k + 1;
        o
    }
}
pub fn rows_eq(a: Rows, b: Rows) -> bool {
    let mut ok = true;
    let mut i = 0;
    while i < 4 {
        ok &= a[i][0] == b[i][0] && a[i][1] == b[i][1] && a[i][2] == b[i][2] && a[i][3] == b[i][3];
        i += 1;
    }
    ok
}
/// Specification side: the k-th call of this evaluation corresponds to log entry off + stride*k.
pub fn spec_call(r: Rows, stride: usize, off: usize) -> Rows {
    unsafe {
        let k = off + stride * SPEC_K;
        SPEC_K += 1;
        assert!(k < UF_N, "OBL ?uf_call_exists");
        assert!(rows_eq(r, UF_IN[k]), "OBL ?uf_call_arguments_match_spec");
        UF_OUT[k]
    }
}
pub fn uf_reset() {
    unsafe {
        UF_N = 0;
        SPEC_K = 0;
    }
}
