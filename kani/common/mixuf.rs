// Uninterpreted-function abstraction of Threefish's MIX / inverse MIX (DESIGN.md 3.2).
#![allow(dead_code, static_mut_refs)]
use crate::nd::any;
// ---- uninterpreted MIX ----
pub const MAXC: usize = 640;
pub static mut UF_R: [u32; MAXC] = [0; MAXC];
pub static mut UF_X: [(u64, u64); MAXC] = [(0, 0); MAXC];
pub static mut UF_Y: [(u64, u64); MAXC] = [(0, 0); MAXC];
pub static mut UF_N: usize = 0;
pub static mut SPEC_K: usize = 0;
pub fn mix_uf(r: u32, x: (u64, u64)) -> (u64, u64) {
    unsafe {
        let k = UF_N;
        assert!(k < MAXC);
        UF_R[k] = r;
        UF_X[k] = x;
        let y: (u64, u64) = (any(), any());
        UF_Y[k] = y;
        UF_N = k + 1;
        y
    }
}
pub fn spec_mix(r: u32, x: (u64, u64)) -> (u64, u64) {
    unsafe {
        let k = SPEC_K;
        SPEC_K += 1;
        assert!(k < UF_N, "OBL uf_call_exists");
        assert!(r == UF_R[k], "OBL rotation_constant_matches_spec_schedule");
        assert!(x.0 == UF_X[k].0 && x.1 == UF_X[k].1, "OBL mix_arguments_match_spec");
        UF_Y[k]
    }
}

