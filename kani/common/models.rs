// Models of the few x86 instructions the verifier cannot enter (DESIGN.md 3.6), installed with
// #[kani::stub].  Written from the Intel SDM pseudo-code.  Every other intrinsic used by /repo runs
// from stdarch's own portable `simd_*` definition.
#![allow(dead_code)]
use core::arch::x86_64::*;
use core::mem::transmute;

/// PSHUFB xmm
pub unsafe fn mm_shuffle_epi8(a: __m128i, b: __m128i) -> __m128i {
    let a: [u8; 16] = transmute(a);
    let b: [u8; 16] = transmute(b);
    let mut r = [0u8; 16];
    let mut i = 0;
    while i < 16 {
        r[i] = if b[i] & 0x80 != 0 { 0 } else { a[(b[i] & 15) as usize] };
        i += 1;
    }
    transmute(r)
}
/// VPSHUFB ymm: two independent 128-bit lanes
pub unsafe fn mm256_shuffle_epi8(a: __m256i, b: __m256i) -> __m256i {
    let a: [u8; 32] = transmute(a);
    let b: [u8; 32] = transmute(b);
    let mut r = [0u8; 32];
    let mut i = 0;
    while i < 32 {
        let base = i & 16;
        r[i] = if b[i] & 0x80 != 0 { 0 } else { a[base + (b[i] & 15) as usize] };
        i += 1;
    }
    transmute(r)
}
/// PACKUSWB: signed 16-bit -> unsigned 8-bit saturation, a's 8 words then b's 8 words
pub unsafe fn mm_packus_epi16(a: __m128i, b: __m128i) -> __m128i {
    let a: [i16; 8] = transmute(a);
    let b: [i16; 8] = transmute(b);
    let mut r = [0u8; 16];
    let mut i = 0;
    while i < 8 {
        r[i] = if a[i] < 0 { 0 } else if a[i] > 255 { 255 } else { a[i] as u8 };
        r[i + 8] = if b[i] < 0 { 0 } else if b[i] > 255 { 255 } else { b[i] as u8 };
        i += 1;
    }
    transmute(r)
}
pub unsafe fn mm_add_epi8(a: __m128i, b: __m128i) -> __m128i {
    let a: [u8; 16] = transmute(a);
    let b: [u8; 16] = transmute(b);
    let mut r = [0u8; 16];
    let mut i = 0;
    while i < 16 { r[i] = a[i].wrapping_add(b[i]); i += 1; }
    transmute(r)
}
pub unsafe fn mm_add_epi32(a: __m128i, b: __m128i) -> __m128i {
    let a: [u32; 4] = transmute(a);
    let b: [u32; 4] = transmute(b);
    transmute([a[0].wrapping_add(b[0]), a[1].wrapping_add(b[1]), a[2].wrapping_add(b[2]), a[3].wrapping_add(b[3])])
}
pub unsafe fn mm_add_epi64(a: __m128i, b: __m128i) -> __m128i {
    let a: [u64; 2] = transmute(a);
    let b: [u64; 2] = transmute(b);
    transmute([a[0].wrapping_add(b[0]), a[1].wrapping_add(b[1])])
}
pub unsafe fn mm256_add_epi32(a: __m256i, b: __m256i) -> __m256i {
    let a: [u32; 8] = transmute(a);
    let b: [u32; 8] = transmute(b);
    let mut r = [0u32; 8];
    let mut i = 0;
    while i < 8 { r[i] = a[i].wrapping_add(b[i]); i += 1; }
    transmute(r)
}
pub unsafe fn mm256_add_epi64(a: __m256i, b: __m256i) -> __m256i {
    let a: [u64; 4] = transmute(a);
    let b: [u64; 4] = transmute(b);
    let mut r = [0u64; 4];
    let mut i = 0;
    while i < 4 { r[i] = a[i].wrapping_add(b[i]); i += 1; }
    transmute(r)
}
pub unsafe fn mm256_zeroupper() {}

// ---- CPUID model: five CPUs selected by LEVEL (0 = SSE2 only .. 4 = AVX2) ----
pub static mut CPU_LEVEL: u8 = 4;
pub static mut CPU_AES: bool = false;
pub unsafe fn cpuid_count(leaf: u32, sub_leaf: u32) -> CpuidResult {
    let lvl = CPU_LEVEL;
    match (leaf, sub_leaf) {
        (0, _) => CpuidResult { eax: 7, ebx: 0x756e_6547, ecx: 0x6c65_746e, edx: 0x4965_6e69 },
        (1, _) => {
            // edx: fxsr(24) mmx(23) sse(25) sse2(26)
            let edx = (1 << 23) | (1 << 24) | (1 << 25) | (1 << 26);
            // ecx: sse3(0) ssse3(9) sse4.1(19) sse4.2(20) popcnt(23) aes(25) xsave(26) osxsave(27) avx(28)
            let mut ecx: u32 = 1;
            if lvl >= 1 { ecx |= 1 << 9; }
            if lvl >= 2 { ecx |= (1 << 19) | (1 << 20) | (1 << 23); }
            if lvl >= 3 { ecx |= (1 << 26) | (1 << 27) | (1 << 28); }
            if CPU_AES { ecx |= 1 << 25; }
            CpuidResult { eax: 0, ebx: 0, ecx, edx }
        }
        (7, 0) => CpuidResult { eax: 0, ebx: if lvl >= 4 { 1 << 5 } else { 0 }, ecx: 0, edx: 0 },
        _ => CpuidResult { eax: 0, ebx: 0, ecx: 0, edx: 0 },
    }
}
pub unsafe fn cpuid(leaf: u32) -> CpuidResult { cpuid_count(leaf, 0) }
pub unsafe fn xgetbv(_x: u32) -> u64 { if CPU_LEVEL >= 3 { 7 } else { 3 } }

// ---- C16: aligned-access intrinsics must be unreachable from byte-slice entry points (DESIGN.md 4 C16)
pub unsafe fn forbid_mm_load_si128(p: *const __m128i) -> __m128i { assert!(false, "OBL !aligned_access_intrinsic_reached"); core::ptr::read_unaligned(p) }
pub unsafe fn forbid_mm_store_si128(p: *mut __m128i, a: __m128i) { assert!(false, "OBL !aligned_access_intrinsic_reached"); core::ptr::write_unaligned(p, a) }
pub unsafe fn forbid_mm256_load_si256(p: *const __m256i) -> __m256i { assert!(false, "OBL !aligned_access_intrinsic_reached"); core::ptr::read_unaligned(p) }
pub unsafe fn forbid_mm256_store_si256(p: *mut __m256i, a: __m256i) { assert!(false, "OBL !aligned_access_intrinsic_reached"); core::ptr::write_unaligned(p, a) }
pub unsafe fn forbid_mm_stream_si128(p: *mut __m128i, a: __m128i) { assert!(false, "OBL !aligned_access_intrinsic_reached"); core::ptr::write_unaligned(p, a) }

// ---- AESENCLAST (Intel SDM): state <- ShiftRows(state); state <- SubBytes(state); dst <- state xor key.
// SubBytes is the AES S-box; the harnesses that use this model leave the table symbolic (AES_SBOX is
// assigned from kani::any()), so what is proved holds for every byte substitution, in particular
// for the AES S-box that both the instruction and the Groestl specification prescribe.
pub static mut AES_SBOX: [u8; 256] = [0; 256];
pub unsafe fn mm_aesenclast_si128(a: __m128i, key: __m128i) -> __m128i {
    let s: [u8; 16] = transmute(a);
    let k: [u8; 16] = transmute(key);
    let mut o = [0u8; 16];
    let mut c = 0;
    while c < 4 {
        let mut r = 0;
        while r < 4 {
            o[r + 4 * c] = AES_SBOX[s[r + 4 * ((c + r) % 4)] as usize] ^ k[r + 4 * c];
            r += 1;
        }
        c += 1;
    }
    transmute(o)
}
