"""Verus runner: single-file mode, JSON results; every proof/exec function is one obligation."""
import json, os, re, shutil
from common import *


def run_verus(path, workdir, timeout=900, extra=()):
    """Returns dict(status, functions=[{name, mode, success, ms}], errors text)."""
    dst = os.path.join(workdir, os.path.basename(path))
    if os.path.abspath(path) != os.path.abspath(dst):
        shutil.copy(path, dst)
    cmd = ["verus", dst, "--output-json", "--time"] + list(extra)
    rc, out, secs, to = run(cmd, cwd=workdir, timeout=timeout, mem_gb=16)
    res = {"cmd": " ".join(cmd), "secs": secs, "functions": [], "status": "undecided"}
    if to:
        res["reason"] = "timeout"
        return res
    # stdout holds the JSON document, diagnostics (stderr) are interleaved before/after it
    start = out.find("{\n")
    doc = None
    for m in re.finditer(r"^\{$", out, re.M):
        try:
            doc, _ = json.JSONDecoder().raw_decode(out[m.start():])
            break
        except Exception:
            continue
    if doc is None:
        res["reason"] = "no JSON from verus (compile error / lost anchor?)"
        res["log"] = out[-3000:]
        return res
    vr = doc.get("verification-results", {})
    res["summary"] = vr
    td = doc.get("times-ms", {})
    for mod in td.get("smt", {}).get("smt-run-module-times", []):
        for fb in mod.get("function-breakdown", []):
            res["functions"].append({"name": fb.get("function"), "mode": fb.get("mode:"), "success": fb.get("success"),
                                     "ms": fb.get("time"), "rlimit": fb.get("rlimit")})
    res["diagnostics"] = out[:out.find("{\n")][-3000:] if vr.get("errors") else ""
    # functions that failed are listed by verus in the diagnostics; the JSON breakdown marks them success=false
    diag = out
    n_rlimit = len(re.findall(r"Resource limit \(rlimit\) exceeded", diag))
    n_rustc = len(re.findall(r"^error\[E\d+\]", diag, re.M))
    n_verif = len(re.findall(r"^error: (assertion failed|postcondition not satisfied|invariant not satisfied|precondition not met|"
                             r"possible arithmetic underflow/overflow|decreases not satisfied|recommendation not met)", diag, re.M))
    res["error_kinds"] = {"rlimit": n_rlimit, "rustc": n_rustc, "verification": n_verif}
    if vr.get("encountered-vir-error") or n_rustc or (not res["functions"] and not vr.get("success")):
        res["reason"] = "verus reported a compile/VIR error (lost anchor or unsupported construct)"
        res["log"] = out[-3000:]
        return res
    if vr.get("errors", 0) > 0 and n_verif == 0:
        res["reason"] = "resource limit (rlimit) exceeded" if n_rlimit else "verus error of unknown kind"
        res["log"] = out[-3000:]
        return res
    res["status"] = "discharged" if vr.get("success") and vr.get("errors", 1) == 0 else "failed"
    return res
