"""Mechanical extraction of functions from rustc's own macro expansion of /repo for Verus.

The function BODIES are passed through verbatim; the only edits are the closed list of rewrites
below (each with an expected match count; a mismatch is a lost anchor -> the caller reports
'undecided', never a violation) and the splicing of contracts / loop invariants / proof hints, which
are keyed by function name and loop ordinal (textual order of `for`/`while` headers)."""
import os, re
from common import *


class LostAnchor(Exception):
    pass


def expand_crate(repo, package, features, scratch):
    """rustc's macro expansion of one crate of the repository's current working tree."""
    cmd = ["cargo", "+nightly", "rustc", "-p", package, "--lib", "--offline"]
    if features:
        cmd += ["--features", features]
    cmd += ["--", "-Zunpretty=expanded"]
    env = dict(ENV)
    env["CARGO_TARGET_DIR"] = os.path.join(scratch, "expand-target")
    rc, out, secs, to = run(cmd, cwd=repo, env=env, timeout=900)
    if rc != 0:
        raise LostAnchor("rustc expansion failed: " + out[-1500:])
    # stdout and stderr are merged by run(); the expansion starts at '#![feature' / '#![no_std]'
    i = out.find("#![")
    return out[i:] if i >= 0 else out, " ".join(cmd)


def match_brace(text, open_idx):
    """index just past the brace matching text[open_idx] == '{' (no string/char literals with braces
    occur in the extracted items; comments are stripped by the expansion)"""
    assert text[open_idx] == "{"
    depth = 0
    for i in range(open_idx, len(text)):
        c = text[i]
        if c == "{":
            depth += 1
        elif c == "}":
            depth -= 1
            if depth == 0:
                return i + 1
    raise LostAnchor("unbalanced braces")


def cut_item(text, header_regex, expect=1):
    ms = list(re.finditer(header_regex, text))
    if len(ms) != expect:
        raise LostAnchor("anchor %r: expected %d match(es), found %d" % (header_regex, expect, len(ms)))
    m = ms[0]
    o = text.index("{", m.end() - 1)
    return text[m.start():match_brace(text, o)]


def cut_fn_body(item_text, fn_regex):
    ms = list(re.finditer(fn_regex, item_text))
    if len(ms) != 1:
        raise LostAnchor("fn anchor %r: found %d" % (fn_regex, len(ms)))
    o = item_text.index("{", ms[0].end() - 1)
    e = match_brace(item_text, o)
    return item_text[o + 1:e - 1]


def cut_const(text, name):
    m = re.search(r"pub const %s\s*:[^=]*=\s*" % re.escape(name), text)
    if not m:
        raise LostAnchor("const %s not found" % name)
    e = text.index(";", m.end())
    return text[m.start():e + 1]


def rewrite(text, pattern, repl, expect, what, flags=0):
    new, n = re.subn(pattern, repl, text, flags=flags)
    if (expect is not None and n != expect) or (expect is None and n == 0):
        raise LostAnchor("rewrite %s: expected %s match(es), found %d" % (what, expect, n))
    return new


LOOP_RE = re.compile(r"\b(for\s+\w+\s+in\s+[^{]+?|while\s+[^{]+?)\{")


def annotate_loops(body, specs):
    """specs: list indexed by loop ordinal (textual order) of dicts {inv: str, before: str, after: str}.
    `inv` goes between the loop header and its '{', `before` right before the header, `after` right after
    the loop's closing brace.  Returns the annotated body; the number of loops must equal len(specs)."""
    heads = list(LOOP_RE.finditer(body))
    if len(heads) != len(specs):
        raise LostAnchor("loop count: expected %d, found %d" % (len(specs), len(heads)))
    # process from the last loop to the first so indices stay valid
    out = body
    for m, sp in reversed(list(zip(heads, specs))):
        o = m.end() - 1
        e = match_brace(out, o)
        out = out[:e] + ("\n" + sp.get("after", "") if sp.get("after") else "") + out[e:]
        if sp.get("body_end"):
            out = out[:e - 1] + "\n" + sp["body_end"] + "\n" + out[e - 1:]
        out = out[:o] + "\n" + sp.get("inv", "") + "\n" + out[o:]
        if sp.get("before"):
            out = out[:m.start()] + sp["before"] + "\n" + out[m.start():]
    return out
