"""setup_cmd: offline sanity of the tool chain (nothing is downloaded, nothing is cached under /tmp)."""
import shutil, sys
from common import *

def main():
    ok = True
    for tool in ("cargo", "cargo-kani", "verus", "python3"):
        if not shutil.which(tool):
            log("missing tool:", tool); ok = False
    for f in ("goto-cc", "goto-instrument", "cbmc", "kani-compiler"):
        if not os.path.exists(os.path.join(KANI_BIN, f)):
            log("missing Kani component:", f); ok = False
    os.makedirs(os.path.join(VERIF, "evidence"), exist_ok=True)
    os.makedirs(os.path.join(VERIF, "replays"), exist_ok=True)
    print("setup ok" if ok else "setup FAILED")
    return 0 if ok else 1
