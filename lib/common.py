"""Shared helpers for the /verif driver: paths, subprocess, evidence, findings."""
import json, os, re, shutil, subprocess, sys, tempfile, time, resource, signal

VERIF = os.path.dirname(os.path.dirname(os.path.abspath(__file__)))
REPO = os.environ.get("VERIF_REPO", "/repo")
KANI_HOME = os.path.expanduser("~/.kani/kani-0.68.0")
KANI_BIN = os.path.join(KANI_HOME, "bin")
NCPU = int(os.environ.get("VERIF_JOBS", "0")) or (os.cpu_count() or 4)
GUARD_CFG = "cryptocorrosion_verif"

ENV = dict(os.environ)
ENV["CARGO_NET_OFFLINE"] = "true"
ENV.setdefault("CARGO_TERM_COLOR", "never")


def log(*a):
    print(*a, file=sys.stderr, flush=True)


class Scratch:
    """mktemp -d scratch directory outside /repo and /verif, removed on exit."""

    def __init__(self, tag):
        base = os.environ.get("VERIF_SCRATCH_BASE", tempfile.gettempdir())
        self.path = tempfile.mkdtemp(prefix="verif-%s-" % tag, dir=base)

    def __enter__(self):
        return self.path

    def __exit__(self, *exc):
        if os.environ.get("VERIF_KEEP_SCRATCH"):
            log("[keep] scratch at", self.path)
            return False
        shutil.rmtree(self.path, ignore_errors=True)
        return False


def _limits(mem_gb):
    def f():
        os.setsid()
        if mem_gb:
            b = int(mem_gb * (1 << 30))
            resource.setrlimit(resource.RLIMIT_AS, (b, b))
    return f


def run(cmd, cwd=None, env=None, timeout=None, mem_gb=None, stdin=None):
    """Run a command, return (rc, stdout+stderr text, seconds, timed_out)."""
    t0 = time.time()
    p = subprocess.Popen(cmd, cwd=cwd, env=env or ENV, stdout=subprocess.PIPE,
                         stderr=subprocess.STDOUT, stdin=subprocess.DEVNULL if stdin is None else subprocess.PIPE,
                         preexec_fn=_limits(mem_gb))
    try:
        out, _ = p.communicate(input=stdin, timeout=timeout)
        to = False
    except subprocess.TimeoutExpired:
        try:
            os.killpg(p.pid, signal.SIGKILL)
        except ProcessLookupError:
            pass
        out, _ = p.communicate()
        to = True
    return p.returncode, out.decode("utf-8", "replace"), time.time() - t0, to


def repo_head():
    rc, out, _, _ = run(["git", "-C", REPO, "rev-parse", "HEAD"])
    return out.strip() if rc == 0 else "unknown"


def repo_dirty():
    rc, out, _, _ = run(["git", "-C", REPO, "status", "--porcelain", "--untracked-files=no"])
    return bool(out.strip())


# ---------------------------------------------------------------------------
# known findings

def load_findings():
    p = os.path.join(VERIF, "known_findings.json")
    if not os.path.exists(p):
        return {"findings": [], "fixed": []}
    return json.load(open(p))


def match_finding(findings, prop, obligation, detail):
    """A finding entry lists property, an obligation regex and (optionally) a detail regex
    (failing check description / location / distinguishing input).  Only status 'open'
    entries suppress; 'fixed' entries never do."""
    for f in findings.get("findings", []):
        if f.get("status", "open") != "open":
            continue
        if prop not in f["properties"]:
            continue
        if not re.search(f["obligation"], obligation):
            continue
        if f.get("detail") and not re.search(f["detail"], detail or ""):
            continue
        return f
    return None


# ---------------------------------------------------------------------------
# evidence

def write_evidence(prop, tier, seed, level, coverage, assumptions, wall_s, violations, extra=None):
    outbase = os.environ.get("VERIF_OUT", VERIF)
    os.makedirs(os.path.join(outbase, "evidence"), exist_ok=True)
    ev = {
        "property_id": prop,
        "tier": tier,
        "seed": seed,
        "level": level,
        "coverage": coverage,
        "assumptions": assumptions,
        "wall_s": round(wall_s, 2),
        "violations": violations,
    }
    if extra:
        ev.update(extra)
    path = os.path.join(outbase, "evidence", "%s.json" % prop)
    tmp = path + ".tmp"
    with open(tmp, "w") as f:
        json.dump(ev, f, indent=1, sort_keys=False)
        f.write("\n")
    os.replace(tmp, path)
    return path


def write_replay(prop, obligation, payload):
    outbase = os.environ.get("VERIF_OUT", VERIF)
    os.makedirs(os.path.join(outbase, "replays"), exist_ok=True)
    safe = re.sub(r"[^A-Za-z0-9_.-]+", "_", obligation)[:150]
    path = os.path.join(outbase, "replays", "%s-%s.json" % (prop, safe))
    with open(path, "w") as f:
        json.dump(payload, f, indent=1)
        f.write("\n")
    return path
