"""Registry: which harness crates ("units") and which harnesses decide which property.

A unit is a harness crate template under /verif/kani/<dir> (instantiated in a scratch directory with
path dependencies on /repo's working tree) plus the cargo/kani flags to build it.  A rule maps a
harness-name regex to the properties it serves, the tier it belongs to, and notes that go into the
evidence file (bounds, functions under contract)."""

RF_ZC = "--cfg zerocopy_derive_union_into_bytes"
RF_HOOK = RF_ZC + " --cfg cryptocorrosion_verif"

PPV_FUNCS_X86 = "ppv_lite86::x86_64::sse2::* (u32x4_sse2, u64x2_sse2, u128x1_sse2, avx2::u32x4x2_avx2) and soft::{x2,x4} trait impls"
PPV_FUNCS_GEN = "ppv_lite86::generic::* (u32x4_generic, u64x2_generic, u128x1_generic) and soft::{x2,x4} trait impls"

CH_CORE = "c2_chacha::guts::{round, diagonalize, undiagonalize, refill_wide_impl, refill_wide, refill_narrow, refill_narrow_rounds, d0123, add_pos, ChaCha::{output_narrow, inc_block_ct, pos64, refill, refill4, refill_rounds}}"
CH_BUF = "c2_chacha::rustcrypto_impl::{Buffer::try_apply_keystream, seek64, seek32, ChaChaAny::{new, seek, try_apply_keystream, try_seek, try_current_pos}, init_chacha, init_chacha_x}"
CH_PAR = "c2_chacha::guts::ChaCha::{new, set_stream_param, get_stream_param, stream32_eq, stream64_eq}"
SHAPE_BOUND = "try_apply_keystream: per-call (buffer fill, length) shapes enumerated concretely, length <= 512 bytes (8 blocks incl. two wide 4-block chunks; quick: <= 321); counter, keystream, data, histories unbounded/symbolic"


def CHACHA_RULES(kind):
    core = ["C01", "C14", "C03"]
    r = [
        (r"leaf::c15_", dict(filter="c15_", props=["C15"], tier="quick", funcs=CH_PAR)),
        (r"leaf::", dict(filter="leaf::", props=core, tier="quick", funcs=CH_CORE)),
        # wiring, quick subset: every dispatch arm at a few round counts; thorough: all drounds 0..=10
        (r"c01_refill_(l\d|gen)_dr(0|2|10)$", dict(filter="c01_refill_", props=core, tier="quick", funcs=CH_CORE, timeout=1200)),
        (r"c01_refill4_(l\d|gen)_dr(0|1|2)$", dict(filter="c01_refill4_", props=core, tier="quick", funcs=CH_CORE, timeout=1200)),
        (r"c01_refill_rounds_(l\d|gen)_dr(0|4|10)$", dict(filter="c01_refill_rounds_", props=["C01", "C03"], tier="quick", funcs=CH_CORE, timeout=1200)),
        (r"c01_refill_(l\d|gen)_dr", dict(filter="c01_refill_", props=core, tier="thorough", funcs=CH_CORE, timeout=1800)),
        (r"c01_refill4_(l\d|gen)_dr", dict(filter="c01_refill4_", props=core, tier="thorough", funcs=CH_CORE, timeout=3000)),
        (r"c01_refill_rounds_(l\d|gen)_dr", dict(filter="c01_refill_rounds_", props=["C01", "C03"], tier="thorough", funcs=CH_CORE, timeout=1800)),
        (r"c01_new_", dict(filter="c01_new_", props=["C01", "C02", "C11"], tier="quick", funcs=CH_BUF)),
        (r"c02_seek_", dict(filter="c02_seek_", props=["C02", "C11"], tier="quick", funcs=CH_BUF)),
        (r"c02_pos_", dict(filter="c02_pos_", props=["C02"], tier="quick", funcs=CH_BUF)),
        (r"shapes_quick::c02_apply_(chacha20|ietf)_h(p0|m1|p63)_n(0|1|64|65|257|320)$", dict(filter="shapes_quick", props=["C01", "C02", "C11", "C16"], tier="quick", funcs=CH_BUF, bounded=SHAPE_BOUND, timeout=1500)),
        (r"shapes_quick::c02_apply_", dict(filter="shapes_quick", props=["C01", "C02", "C11", "C16"], tier="quick", funcs=CH_BUF, bounded=SHAPE_BOUND, timeout=1500, tier_by_prop={"C16": "thorough"})),
        (r"shapes_thorough::c02_apply_", dict(filter="shapes_thorough", props=["C01", "C02", "C11"], tier="thorough", funcs=CH_BUF, bounded=SHAPE_BOUND, timeout=1800)),
    ]
    if kind == "generic":
        # the stream-cipher layer is backend independent except for dispatch: run the loop-free
        # operation contracts and the alias shapes on the portable build too; the dense grids once (x86)
        r = [x for x in r if "shapes_thorough" not in x[0]]
        r = [((r"shapes_quick::c02_apply_(chacha8|chacha12|xchacha|chacha20_h(p0|m1)_n(65|320)|ietf_h(p0|m1)_n(65|320))", m) if "shapes_quick" in rx else (rx, m)) for rx, m in r]
    return r


NOSTD_RULES = [
    (r"c01_refill_l0_dr(0|2|10)$", dict(filter="c01_refill_l0", props=["C03"], tier="thorough", funcs=CH_CORE, timeout=1800)),
    (r"c01_refill4_l0_dr(0|1|2)$", dict(filter="c01_refill4_l0", props=["C03"], tier="thorough", funcs=CH_CORE, timeout=3000)),
    (r"c01_refill_rounds_l0_dr(0|4|10)$", dict(filter="c01_refill_rounds_l0", props=["C03"], tier="thorough", funcs=CH_CORE, timeout=1800)),
    (r"c01_new_(chacha20|ietf|xchacha20)$", dict(filter="c01_new_", props=["C03"], tier="thorough", funcs=CH_BUF)),
    (r"c02_seek_(chacha20|ietf)_u64$", dict(filter="c02_seek_", props=["C03"], tier="thorough", funcs=CH_BUF)),
]

TF_FUNCS = "threefish_cipher::{mix, inv_mix, read_u64v_le, write_u64v_le, Threefish{256,512,1024}::{with_tweak, new, encrypt_block, decrypt_block}}"
TF_RULES = [
    (r"c09_le_io", dict(filter="c09_", props=["C09", "C10", "C16"], tier="quick", funcs=TF_FUNCS)),
    (r"c09_mix_contract", dict(filter="c09_", props=["C09", "C10", "C05"], tier="quick", funcs=TF_FUNCS)),
    (r"c09_key_schedule", dict(filter="c09_", props=["C09", "C10"], tier="quick", funcs=TF_FUNCS)),
    (r"tf256::c09_encrypt_wiring", dict(filter="c09_", props=["C09", "C16"], tier="quick", funcs=TF_FUNCS, timeout=2400)),
    (r"c09_encrypt_wiring", dict(filter="c09_", props=["C09"], tier="quick", funcs=TF_FUNCS, timeout=2400)),
    (r"c10_decrypt_wiring", dict(filter="c10_", props=["C10"], tier="quick", funcs=TF_FUNCS, timeout=2400)),
    (r"c10_round_inverse_lemma", dict(filter="c10_", props=["C10"], tier="quick", funcs="spec-level: spec/threefish.rs round_core/inv_core", timeout=1800)),
]

HASH_BOUND = "update: per-call (buffer fill, length) shapes enumerated concretely, length <= 300 bytes; finalize: every buffer fill level (quick: boundary fills); chaining value, counters, data symbolic; histories unbounded"
MODE_ASSUME = "compression entry points replaced by contract stubs (uninterpreted function + call log); their relation to the specification's compression function is proved by other harnesses of the same property (BLAKE round/wiring, Threefish/UBI step, JH F8 wiring + bit-slice == E8, Groestl P/Q round lemmas + wiring; the AESENCLAST instruction model is trusted)"


def HASH_RULES():
    H = {"blake": ("C04", "blake_hash::{Blake224,Blake256,Blake384,Blake512}::{default, update, finalize_into_dirty, reset, clone, increase_count}, Compressor{256,512}::finalize"),
         "groestl": ("C07", "groestl_aesni::{Groestl224,Groestl256,Groestl384,Groestl512}::{default, new_truncated, update, finalize_dirty, finalize_into_dirty, reset, clone}, Compressor{512,1024}::{new,input,finalize_dirty}"),
         "jh": ("C06", "jh_x86_64::{Jh224,Jh256,Jh384,Jh512}::{default, update, finalize_into_dirty, reset, clone}"),
         "skein": ("C05", "skein_hash::{Skein256,Skein512,Skein1024}<N>::{default, update, finalize_into_dirty, reset, clone}")}
    r = []
    for fam, (pc, funcs) in H.items():
        cx = pc.lower()
        for tier in ("quick", "thorough"):
            mod = "%s_mode::%s::" % (fam, tier)
            r.append((mod + cx + r"_\w+_finalize_p", dict(filter=mod + cx, props=[pc, "C17", "C16"], tier=tier, funcs=funcs, bounded=HASH_BOUND, timeout=2400,
                                                        tier_by_prop={"C16": "thorough"})))
            r.append((mod + cx + r"_\w+_default_reset", dict(filter=mod + cx, props=[pc, "C08"], tier=tier, funcs=funcs, timeout=2400)))
            r.append((mod + r"c08_\w+_default_reset", dict(filter=mod + "c08", props=[pc, "C08"], tier=tier, funcs=funcs, timeout=2400)))
            r.append((mod + r"c08_\w+_update_p", dict(filter=mod + "c08", props=["C08", "C17", "C16"], tier=tier, funcs=funcs, bounded=HASH_BOUND, timeout=2400,
                                                     tier_by_prop={"C16": "thorough"})))
            r.append((mod + r"c08_\w+_clone_p", dict(filter=mod + "c08", props=["C08"], tier=tier, funcs=funcs, bounded=HASH_BOUND, timeout=2400)))
    BF = "blake_hash::{round32, round64, diagonalize, undiagonalize, u32x4::put_block, u64x4::put_block, Compressor{256,512}::{put_block, finalize}}"
    JF = "jh_x86_64::compressor::{ss, l, f8_impl, f8, Compressor::{new, input, finalize}}"
    core = [
        (r"blake_core::c04_lemma", dict(filter="blake_core::", props=["C04"], tier="quick", funcs="spec-level: spec/blake_core.rs", timeout=2400)),
        (r"blake_core::\w+::c04_(round|diag)", dict(filter="blake_core::", props=["C04", "C03"], tier="quick", funcs=BF, timeout=1200)),
        (r"blake_core::wiring::c04_finalize_", dict(filter="blake_core::", props=["C04", "C03", "C16"], tier="quick", funcs=BF, timeout=1200)),
        (r"blake_core::wiring::c04_put_block256_(l0|l4|gen)", dict(filter="blake_core::", props=["C04", "C03", "C16"], tier="quick", funcs=BF, timeout=2400)),
        (r"blake_core::wiring::c04_put_block512_(l0|l4|gen)", dict(filter="blake_core::", props=["C04", "C03", "C16"], tier="quick", funcs=BF, timeout=3000, tier_by_prop={"C16": "thorough"})),
        (r"blake_core::wiring::c04_put_block", dict(filter="blake_core::", props=["C04", "C03"], tier="thorough", funcs=BF, timeout=3000)),
        (r"jh_e8::c06_e8_", dict(filter="jh_e8::", props=["C06"], tier="quick", timeout=3600, cbmc_args=["--max-field-sensitivity-array-size", "1100"],
                                  funcs="specification level: bit-slice formulation of F8 (the one the crate is proved equal to) vs the JH document's E8 under round-dependent layouts; round constants from jh_x86_64::compressor::E8_BITSLICE_ROUNDCONSTANT")),
        (r"jh_core::c06_iv_contract", dict(filter="jh_core::", props=["C06"], tier="quick", funcs="jh_x86_64::consts::JH{224,256,384,512}_H0 against the real f8", timeout=2400)),
        (r"jh_core::\w+::c06_ss_l_leaf", dict(filter="jh_core::", props=["C06", "C03"], tier="quick", funcs=JF, timeout=1200)),
        (r"jh_core::wiring::c06_f8_wiring_(l4|gen)", dict(filter="jh_core::", props=["C06", "C03", "C16"], tier="quick", funcs=JF, timeout=3600, tier_by_prop={"C16": "thorough"})),
        (r"jh_core::wiring::c06_f8_wiring_", dict(filter="jh_core::", props=["C06", "C03"], tier="thorough", funcs=JF, timeout=3600)),
    ]
    GF = "groestl_aesni::compressor::{mul2, submix, round, rounds_p_q, rounds_p, rounds_q, transpose_a, transpose_b, transpose_b_inv, transpose_o_b, transpose_o_b_inv, transpose, transpose_inv, tf512_impl, of512_impl, init512_impl, tf1024_impl, of1024_impl, init1024_impl}"
    core.append((r"groestl_core::c07_(leaf|lemma)", dict(filter="groestl_core::", props=["C07"], tier="quick", funcs=GF, timeout=3600)))
    core.append((r"groestl_core::c07_dispatch", dict(filter="groestl_core::", props=["C07"], tier="quick", funcs="groestl_aesni::compressor::{aes,ssse3,sse2}::* wrappers and autodetect::* (lazy_static function-pointer table over CPUID)", timeout=1200)))
    core.append((r"groestl_core::c07_wiring", dict(filter="groestl_core::", props=["C07", "C16"], tier="quick", funcs=GF, timeout=2400)))
    core.append((r"skein_ubi::c05_process_block", dict(filter="skein_ubi::", props=["C05", "C16"], tier="quick", timeout=3000, tier_by_prop={"C16": "thorough"},
                 funcs="skein_hash::Skein{256,512,1024}::process_block with threefish_cipher::{with_tweak, encrypt_block, read/write_u64v_le} executed and mix as uninterpreted function")))
    return core + r


UNITS = {
    "ppv_x86": dict(
        template="kani/ppv", crate="ppv_h", zflags=["stubbing"], cargo_args=[], rustflags=RF_ZC,
        backend_note="x86-64 backends SSE2, SSSE3, SSE4.1(=AVX types), AVX2 instantiated by type",
        rules=[
            (r"::c12_(u32x4|u32x4x4|u64x4|u128x1|u128x2)_", dict(filter="c12_", props=["C12", "C03"], tier="quick", funcs=PPV_FUNCS_X86)),
            (r"::c12_", dict(filter="c12_", props=["C12", "C03"], tier="quick", funcs=PPV_FUNCS_X86, tier_by_prop={"C03": "thorough"})),
            (r"::c13_.*_bytes$", dict(filter="c13_", props=["C13", "C03", "C16"], tier="quick", funcs=PPV_FUNCS_X86, tier_by_prop={"C03": "thorough"})),
            (r"::c13_(u32x4|u32x4x4|u64x4|u128x1|u128x2)_", dict(filter="c13_", props=["C13", "C03"], tier="quick", funcs=PPV_FUNCS_X86)),
            (r"::c13_", dict(filter="c13_", props=["C13", "C03"], tier="quick", funcs=PPV_FUNCS_X86, tier_by_prop={"C03": "thorough"})),
        ],
    ),
    "ppv_generic": dict(
        template="kani/ppv", crate="ppv_h", zflags=["stubbing"], cargo_args=["--features", "no_simd"], rustflags=RF_ZC,
        backend_note="portable backend (feature no_simd)",
        rules=[
            (r"::c12_(u32x4|u32x4x4|u64x4|u128x1|u128x2)_", dict(filter="c12_", props=["C12", "C03"], tier="quick", funcs=PPV_FUNCS_GEN)),
            (r"::c12_", dict(filter="c12_", props=["C12", "C03"], tier="quick", funcs=PPV_FUNCS_GEN, tier_by_prop={"C03": "thorough"})),
            (r"::c13_.*_bytes$", dict(filter="c13_", props=["C13", "C03", "C16"], tier="quick", funcs=PPV_FUNCS_GEN, tier_by_prop={"C03": "thorough"})),
            (r"::c13_(u32x4|u32x4x4|u64x4|u128x1|u128x2)_", dict(filter="c13_", props=["C13", "C03"], tier="quick", funcs=PPV_FUNCS_GEN)),
            (r"::c13_", dict(filter="c13_", props=["C13", "C03"], tier="quick", funcs=PPV_FUNCS_GEN, tier_by_prop={"C03": "thorough"})),
        ],
    ),
    "chacha_x86": dict(
        template="kani/chacha", crate="chacha_h", zflags=["stubbing"], cargo_args=[], rustflags=RF_HOOK,
        backend_note="std build: real dispatch!/dispatch_light128! arms selected through the real is_x86_feature_detected! over a CPUID model (levels SSE2, SSSE3, SSE4.1, AVX, AVX2)",
        rules=CHACHA_RULES("x86"),
    ),
    "chacha_generic": dict(
        template="kani/chacha", crate="chacha_h", zflags=["stubbing"], cargo_args=["--features", "no_simd"], rustflags=RF_HOOK,
        backend_note="no_simd build: portable backend",
        rules=CHACHA_RULES("generic"),
    ),
    # no-std builds of c2-chacha / ppv-lite86: the dispatch macros select the backend at COMPILE time by
    # cfg!(target_feature = ..); one unit per static arm, selected with -C target-feature (thorough tier, C03)
    "chacha_nostd_sse2": dict(
        template="kani/chacha", crate="chacha_h", zflags=["stubbing"], cargo_args=["--no-default-features"],
        rustflags=RF_HOOK, native_replay=False,
        backend_note="no-std build: compile-time dispatch arm sse2 selected by cfg!(target_feature)",
        rules=NOSTD_RULES,
    ),
    "chacha_nostd_ssse3": dict(
        template="kani/chacha", crate="chacha_h", zflags=["stubbing"], cargo_args=["--no-default-features"],
        rustflags=RF_HOOK + " -C target-feature=+ssse3", native_replay=False,
        backend_note="no-std build: compile-time dispatch arm ssse3 selected by cfg!(target_feature)",
        rules=NOSTD_RULES,
    ),
    "chacha_nostd_sse41": dict(
        template="kani/chacha", crate="chacha_h", zflags=["stubbing"], cargo_args=["--no-default-features"],
        rustflags=RF_HOOK + " -C target-feature=+sse4.1", native_replay=False,
        backend_note="no-std build: compile-time dispatch arm sse41 selected by cfg!(target_feature)",
        rules=NOSTD_RULES,
    ),
    "chacha_nostd_avx": dict(
        template="kani/chacha", crate="chacha_h", zflags=["stubbing"], cargo_args=["--no-default-features"],
        rustflags=RF_HOOK + " -C target-feature=+avx", native_replay=False,
        backend_note="no-std build: compile-time dispatch arm avx selected by cfg!(target_feature)",
        rules=NOSTD_RULES,
    ),
    "chacha_nostd_avx2": dict(
        template="kani/chacha", crate="chacha_h", zflags=["stubbing"], cargo_args=["--no-default-features"],
        rustflags=RF_HOOK + " -C target-feature=+avx2", native_replay=False,
        backend_note="no-std build: compile-time dispatch arm avx2 selected by cfg!(target_feature)",
        rules=NOSTD_RULES,
    ),
    "threefish": dict(
        template="kani/threefish", crate="threefish_h", zflags=["stubbing"], cargo_args=[], rustflags=RF_HOOK,
        backend_note="default build (rounds unrolled by unroll8!)",
        rules=TF_RULES,
    ),
    "threefish_no_unroll": dict(
        template="kani/threefish", crate="threefish_h", zflags=["stubbing"], cargo_args=["--features", "no_unroll"], rustflags=RF_HOOK,
        backend_note="feature no_unroll (rounds in for loops)",
        rules=TF_RULES,
    ),
    "hashes": dict(
        template="kani/hashes", crate="hashes_h", zflags=["stubbing"], cargo_args=[], rustflags=RF_HOOK, native_replay=False,
        backend_note="mode-of-operation layer (backend independent); " + MODE_ASSUME,
        rules=HASH_RULES(),
    ),
    "hashes_generic": dict(
        template="kani/hashes", crate="hashes_h", zflags=["stubbing"], cargo_args=["--features", "no_simd"], rustflags=RF_HOOK, native_replay=False,
        backend_note="no_simd build: BLAKE and JH cores on the portable backend",
        # (the initial-value contract is about constants and runs the real f8 once: x86 unit only)
        rules=[x for x in HASH_RULES() if "_core::" in x[0] and "iv_contract" not in x[0]],
    ),
    "ppvnull": dict(
        template="kani/ppvnull", crate="ppvnull_h", zflags=[], cargo_args=[], rustflags=RF_ZC,
        backend_note="ppv-null emulation types",
        rules=[(r"::c19_", dict(filter="c19_", props=["C19"], tier="quick", funcs="every public method and operator impl of ppv_null::{u32x4,u64x4,u128x1,u128x2,u32x4x4}"))],
    ),
}

# property -> ordered list of units consulted
PROP_UNITS = {
    "C12": ["ppv_x86", "ppv_generic"],
    "C13": ["ppv_x86", "ppv_generic"],
    "C19": ["ppvnull"],
    "C01": ["chacha_x86", "chacha_generic"],
    "C14": ["chacha_x86", "chacha_generic"],
    "C15": ["chacha_x86", "chacha_generic"],
    "C02": ["chacha_x86", "chacha_generic"],
    "C11": ["chacha_x86", "chacha_generic"],
    "C04": ["hashes", "hashes_generic"], "C05": ["hashes", "threefish"], "C06": ["hashes", "hashes_generic"],
    "C03": ["ppv_x86", "ppv_generic", "chacha_x86", "chacha_generic", "hashes", "hashes_generic",
            "chacha_nostd_sse2", "chacha_nostd_ssse3", "chacha_nostd_sse41", "chacha_nostd_avx", "chacha_nostd_avx2"],
    "C16": ["ppv_x86", "ppv_generic", "chacha_x86", "hashes", "threefish"], "C07": ["hashes"], "C08": ["hashes"], "C17": ["hashes"],
    "C09": ["threefish", "threefish_no_unroll"],
    "C10": ["threefish", "threefish_no_unroll"],
}

TF_VERUS = dict(builder="threefish", expect_min=4, tier="quick", second_route_exists=True,
                funcs="Verus on the bodies of Threefish{256,512,1024}::{encrypt_block, decrypt_block} (word-level cores), mix, inv_mix, extracted from rustc's macro expansion of /repo, unrolled and no_unroll, with loop invariants against the Skein 1.3 specification functions")
HIST_VERUS = dict(file="verus/history.rs", expect_min=5, tier="quick",
                  funcs="spec-level: abstract machine of the per-call contracts (position in range, re-chunking invariance, apply twice restores, failed calls are no-ops, output depends only on the absolute position)")
PROP_VERUS = {
    "C02": [HIST_VERUS],
    "C11": [HIST_VERUS],
    "C08": [dict(file="verus/chunking.rs", expect_min=8, tier="quick",
                 funcs="spec-level induction over the call history: the per-call update contract (eager and lazy buffering) makes the stream view grow by exactly the bytes given, the representation is a function of the stream view, hence partition invariance")],
    "C17": [dict(builder="blake_increase_count", expect_min=4, tier="quick", second_route_exists=True,
                 funcs="Verus on the bodies of Blake{224,256,384,512}::increase_count extracted from rustc's macro expansion: 2W-bit counter value grows by exactly 8*count (carry between the words)")],
    "C06": [dict(file="verus/compose_inverse.rs", expect_min=4, tier="quick",
                 funcs="spec-level induction: per-round conjugation decode_{r+1}(f_B(r,x)) == f_S(r, decode_r(x)) composes over all rounds")],
    "C09": [TF_VERUS],
    "C10": [TF_VERUS, dict(file="verus/compose_inverse.rs", expect_min=3, tier="quick",
                 funcs="spec-level induction: undo_rounds(do_rounds(v)) == v and do_rounds(undo_rounds(w)) == w from the per-round inverse lemmas")],
}

PROP_LEVEL = {
    "C12": "proof",
    "C13": "proof",
    "C19": "proof",
    "C03": "proof", "C16": "proof", "C09": "proof", "C10": "proof", "C04": "proof", "C05": "proof", "C06": "proof", "C07": "proof", "C08": "proof", "C17": "proof",
    "C01": "proof", "C14": "proof", "C15": "proof", "C02": "proof", "C11": "proof",
}

TRUSTED_COMMON = [
    "rustc -> Kani MIR -> goto translation (kani-compiler 0.68.0), CBMC 6.11.0 bit-precise semantics, CaDiCaL",
    "the obligation/assumption split of the modular rule (DESIGN.md 3.2)",
]
TRUSTED_X86 = [
    "instruction models installed with #[kani::stub] (kani/common/models.rs): PSHUFB (_mm_shuffle_epi8, _mm256_shuffle_epi8), PACKUSWB (_mm_packus_epi16), PADDD/PADDQ (_mm_add_epi32/64, _mm256_add_epi32: Kani wrongly flags simd_add as overflowing)",
    "all other x86 intrinsics are executed from stdarch's portable simd_* definitions",
]


# ---------------------------------------------------------------------------------------------
# quick-tier budget (the quick command of every property must finish well inside 15 minutes on an idle
# 16-core machine).  Harnesses matching QUICK_DENY are run in the thorough tier only; for the
# properties in QUICK_ONLY only the harnesses of the named unit matching the regex stay in quick.
QUICK_DENY = [
    r"jh_e8::c06_e8_j3_constants$",                                                     # ~9 min: quick runs its six 7-round segments in parallel instead
    r"groestl_core::c07_(leaf_round512|lemma_submix1024)_part[1357]$",                  # quick: the even column pairs (~200 CPU-s per part), thorough: all
    r"groestl_core::c07_leaf_round512$", r"groestl_core::c07_lemma_submix1024$",      # ~15 min each: AES model with a symbolic S-box
    r"jh_core::wiring::c06_f8_wiring_",                                                 # ~10 min each
    r"blake_core::c04_lemma_round64$", r"blake_core::wiring::c04_put_block512_l[0-3]$",
    r"skein_mode::quick::c05_skein1024_(1|32|64|129|200)_", r"skein_ubi::c05_process_block1024",
    # Skein-1024 is the same define_hasher! body as Skein-256/512 and each of its harnesses costs 5-7 CPU minutes
    # (GenericArray<u8, U128> iterator plumbing): quick keeps six boundary shapes, thorough runs all
    r"skein_mode::quick::c05_skein1024_128_finalize_p(0|1|64|127)$", r"skein_mode::quick::c05_skein512_32_", r"skein_mode::quick::c08_skein1024_128_update_p(0_n0|0_n128|0_n257|127_n2|128_n129|128_n128|1_n127)$",
    r"tf1024::c09_encrypt_wiring$", r"tf1024::c10_decrypt_wiring$",                     # the Verus route covers the 1024-bit cores in quick
]
# harnesses known to be slow are started first (longest-first scheduling shortens the critical path)
SLOW_FIRST = [r"skein1024", r"jh_e8::", r"iv_contract", r"groestl_core::", r"1024", r"blake_core::wiring", r"512", r"refill4", r"n(320|321|319|257|258)$"]
QUICK_ONLY = {
    # C08 quick: the c08_ harnesses only (the c05_*_N_default_reset output-size variants stay with C05), Skein-1024 by
    # its lazy-buffer boundary shape, clone once per state width, update shapes for one type per state width
    # (the 224/384-bit types are the same update code), reset for every type
    "C08": {"hashes": r"::c08_(?!skein1024_128_(default_reset|clone_|update_p128_n1$|update_p0_n129$))(?!(blake224|blake384|groestl224|groestl384|jh224|jh384|jh512)_clone_)(?!(blake224|blake384|groestl224|groestl384|jh224|jh384)_update_)\w+_(default_reset|clone_p\d+_n\d+|update_p0_n(32|33|64|65|128|129)|update_p(31|32|63|64|127|128)_n(0|1)|update_p(32|64)_n(32|64))$"},
    "C17": {"hashes": r"(blake\d+|groestl\d+|jh\d+|skein(256_32|512_64|1024_128))_(finalize_p(0|31|32|63|64|127|128)|update_p0_n(32|64|128))$"},
    "C03": {"hashes": r"(c04_(round|diag)|c04_finalize_|c04_put_block256_|c06_ss_l_leaf)", "hashes_generic": r"(c04_(round|diag)|c04_finalize_|c04_put_block256_|c06_ss_l_leaf)"},
    "C16": {"hashes": r"(c04_finalize_l[04]|c04_put_block256_l4|c07_wiring_tf512|c07_wiring_of512|finalize_p0$)"},
}
