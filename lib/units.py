"""Registry: which harness crates ("units") and which harnesses decide which property.

A unit is a harness crate template under /verif/kani/<dir> (instantiated in a scratch directory with
path dependencies on /repo's working tree) plus the cargo/kani flags to build it.  A rule maps a
harness-name regex to the properties it serves, the tier it belongs to, and notes that go into the
evidence file (bounds, functions under contract)."""

RF_ZC = "--cfg zerocopy_derive_union_into_bytes"
RF_HOOK = RF_ZC + " --cfg cryptocorrosion_verif"

PPV_FUNCS_X86 = "ppv_lite86::x86_64::sse2::* (u32x4_sse2, u64x2_sse2, u128x1_sse2, avx2::u32x4x2_avx2) and soft::{x2,x4} trait impls"
PPV_FUNCS_GEN = "ppv_lite86::generic::* (u32x4_generic, u64x2_generic, u128x1_generic) and soft::{x2,x4} trait impls"

UNITS = {
    "ppv_x86": dict(
        template="kani/ppv", crate="ppv_h", zflags=["stubbing"], cargo_args=[], rustflags=RF_ZC,
        backend_note="x86-64 backends SSE2, SSSE3, SSE4.1(=AVX types), AVX2 instantiated by type",
        rules=[
            (r"::c12_", dict(filter="c12_", props=["C12", "C03"], tier="quick", funcs=PPV_FUNCS_X86)),
            (r"::c13_.*_bytes$", dict(filter="c13_", props=["C13", "C03", "C16"], tier="quick", funcs=PPV_FUNCS_X86)),
            (r"::c13_", dict(filter="c13_", props=["C13", "C03"], tier="quick", funcs=PPV_FUNCS_X86)),
        ],
    ),
    "ppv_generic": dict(
        template="kani/ppv", crate="ppv_h", zflags=["stubbing"], cargo_args=["--features", "no_simd"], rustflags=RF_ZC,
        backend_note="portable backend (feature no_simd)",
        rules=[
            (r"::c12_", dict(filter="c12_", props=["C12", "C03"], tier="quick", funcs=PPV_FUNCS_GEN)),
            (r"::c13_.*_bytes$", dict(filter="c13_", props=["C13", "C03", "C16"], tier="quick", funcs=PPV_FUNCS_GEN)),
            (r"::c13_", dict(filter="c13_", props=["C13", "C03"], tier="quick", funcs=PPV_FUNCS_GEN)),
        ],
    ),
}

# property -> ordered list of units consulted
PROP_UNITS = {
    "C12": ["ppv_x86", "ppv_generic"],
    "C13": ["ppv_x86", "ppv_generic"],
}

PROP_LEVEL = {
    "C12": "proof",
    "C13": "proof",
}

TRUSTED_COMMON = [
    "rustc -> Kani MIR -> goto translation (kani-compiler 0.68.0), CBMC 6.11.0 bit-precise semantics, CaDiCaL",
    "the obligation/assumption split of the modular rule (DESIGN.md 3.2)",
]
TRUSTED_X86 = [
    "instruction models installed with #[kani::stub] (kani/common/models.rs): PSHUFB (_mm_shuffle_epi8, _mm256_shuffle_epi8), PACKUSWB (_mm_packus_epi16), PADDD/PADDQ (_mm_add_epi32/64, _mm256_add_epi32: Kani wrongly flags simd_add as overflowing)",
    "all other x86 intrinsics are executed from stdarch's portable simd_* definitions",
]
