"""Verus input for BLAKE's bit-counter update (C17), extracted on every run from rustc's macro
expansion of /repo's blake-hash: the four `impl BlakeNNN { fn increase_count(..) }` bodies verbatim,
turned into free functions (the `impl` wrapper is dropped) with the contract
    value(final(t)) == value(old(t)) + 8 * count        (no wrap of the 2W-bit counter: format limit)
where value(t) = t.1 * 2^W + t.0."""
import os, re
from verus_extract import *

PRELUDE = r'''
use vstd::prelude::*;
verus! {
pub assume_specification[ u32::overflowing_add ](x: u32, y: u32) -> (r: (u32, bool))
    ensures r.0 as int == (x as int + y as int) % 0x1_0000_0000, r.1 == (x as int + y as int >= 0x1_0000_0000);
pub assume_specification[ u64::overflowing_add ](x: u64, y: u64) -> (r: (u64, bool))
    ensures r.0 as int == (x as int + y as int) % 0x1_0000_0000_0000_0000, r.1 == (x as int + y as int >= 0x1_0000_0000_0000_0000);
pub open spec fn value32(t: (u32, u32)) -> int { t.1 as int * 0x1_0000_0000 + t.0 as int }
pub open spec fn value64(t: (u64, u64)) -> int { t.1 as int * 0x1_0000_0000_0000_0000 + t.0 as int }
'''


def generate(repo, scratch, tier):
    expanded, cmd = expand_crate(repo, "blake-hash", None, scratch)
    text = PRELUDE
    for T, w, val, lim in (("Blake224", "u32", "value32", "0x1_0000_0000_0000_0000"), ("Blake256", "u32", "value32", "0x1_0000_0000_0000_0000"),
                           ("Blake384", "u64", "value64", "0x1_0000_0000_0000_0000_0000_0000_0000_0000"), ("Blake512", "u64", "value64", "0x1_0000_0000_0000_0000_0000_0000_0000_0000")):
        item = cut_item(expanded, r"impl %s\s*\{\s*fn increase_count\(" % T)
        body = cut_fn_body(item, r"fn increase_count\(t: &mut \(%s, %s\), count: %s\)\s*\{" % (w, w, w))
        text += f'''
// extracted from `impl {T} {{ fn increase_count }}`
fn increase_count_{T.lower()}(t: &mut ({w}, {w}), count: {w})
    requires count <= 128, {val}(*old(t)) + 8 * count < {lim},
    ensures {val}(*final(t)) == {val}(*old(t)) + 8 * count,
{{
{body}
}}
'''
    text += "\n} // verus!\nfn main() {}\n"
    path = os.path.join(scratch, "blake_increase_count.rs")
    open(path, "w").write(text)
    return [dict(label="blake_increase_count.rs", path=path, extra=[])], [cmd]
