#!/usr/bin/env python3
"""Regenerates MANIFEST.json from the tables below (run after changing what is claimed)."""
import json, os, sys
HERE = os.path.dirname(os.path.abspath(__file__))
sys.path.insert(0, HERE)
VERIF = os.path.dirname(HERE)

CLAIMED = {
 "C01": dict(technique="Kani contracts: round/diagonalize leaf contracts per backend; core wiring (refill, refill4, refill_rounds) through the real dispatch with round as uninterpreted function; Buffer invariant + try_apply_keystream contract per shape; new() contracts per type",
             text="Keystream == ChaCha specification: leaf contract of guts::round per backend (full domain), spec lemma standard double round == row formulation, wiring of every core entry point against the specification for symbolic key/nonce/64-bit counter on every dispatch arm, XOR/frame contract of try_apply_keystream from an arbitrary invariant state, and the initial state of all 7 cipher types (HChaCha for XChaCha).",
             note="Bounded in per-call length only (BOUNDED: <= 512 bytes per shape, not counted as proved beyond it; quick: boundary shapes and drounds subset, thorough: dense grid, all drounds 0..=10). Trusted: Kani/CBMC, instruction and CPUID models, the uninterpreted-function rule (DESIGN.md 3.2).",
             ref="DESIGN.md 4 C01"),
 "C02": dict(technique="Kani contracts: representation invariant Inv(P) on Buffer; try_apply_keystream / try_seek (7 integer types) / try_current_pos contracts from an arbitrary Inv state; Verus induction over histories (verus/history.rs)",
             text="Every operation is proved from an arbitrary state satisfying the representation invariant (symbolic counter incl. exhausted and fresh states, symbolic buffer, lazily pending block), so every history is covered by induction over operations; panics and overflow are checked in the same obligations.",
             note="apply is proved per (buffer fill, length) shape, length <= 512 (BOUNDED in per-call length, histories unbounded); seek/current_pos are loop-free and full domain. refill/refill4 replaced by their contracts (proved under C01).",
             ref="DESIGN.md 4 C02/C11"),
 "C11": dict(technique="Kani contracts (same obligations as C02 read at the limits): Ok iff the request ends within 2^38 / 2^70 bytes, atomic error, seek-to-limit, nonce word frame; Verus induction over histories (verus/history.rs)",
             text="Exhaustion: Ok iff position+length <= limit, error leaves data, position and invariant unchanged, seek past the end is an error, the IETF nonce word is never disturbed by the counter.",
             note="as C02", ref="DESIGN.md 4 C02/C11"),
 "C14": dict(technique="Kani contracts: refill and refill4 both proved equal to the same specification (block of counter+i, counter advance by 1/4 modulo 2^64, stream id frame) on every dispatch arm",
             text="4-block refill == four 1-block refills follows from both being proved equal to one backend-independent specification, for a symbolic 64-bit counter (all carry positions, the 2^64 wrap) and every backend.",
             note="drounds enumerated: quick {0,1,2}/{0,2,10}, thorough 0..=10.", ref="DESIGN.md 4 C14"),
 "C15": dict(technique="Kani function-level contracts, loop-free, full domain",
             text="set/get stream parameter round trip and isolation, equality with the directly constructed state, stream32_eq/stream64_eq as bi-implications, ChaCha::new layouts.",
             note="Trusted: Kani/CBMC.", ref="DESIGN.md 4 C15"),
 "C09": dict(technique="Kani contracts: mix/inv_mix, key schedule, LE word I/O (full domain); byte-level wiring of encrypt_block for an arbitrary subkey table with mix as uninterpreted function, unrolled and no_unroll builds; Verus loop invariants on the mechanically extracted encrypt/key-schedule code",
             text="Encryption == Skein 1.3 Threefish for all keys, tweaks and blocks of the three sizes in both feature settings: 72/72/80 rounds, rotation schedule, permutation, subkey injection, final subkey, little-endian I/O.",
             note="Trusted: Kani/CBMC, the uninterpreted-function rule. Second route: Verus on the functions extracted mechanically from rustc's macro expansion of threefish-cipher on every run (key schedule, process_block/encrypt loops, both feature settings), closed rewrite list in lib/verus_extract.py.",
             ref="DESIGN.md 4 C09"),
 "C10": dict(technique="Kani contracts (decrypt wiring == specification inverse rounds; per-round two-sided inverse lemma with the real MIX) + Verus induction lemma over the rounds",
             text="decrypt_block == the specification's inverse rounds in reverse order (byte level, arbitrary subkeys); every round and the final subkey are two-sided inverses (Kani, real MIX); composition over all rounds by a Verus induction lemma.",
             note="The instantiation of the generic Verus lemma to the Rust specification's loops is by inspection (the loops literally iterate round / inv_round).",
             ref="DESIGN.md 4 C10"),
 "C12": dict(technique="Kani function-level contracts (full-domain symbolic operands, loop-free) per backend x vector type x operation",
             text="Every operation of every Machine vector type on SSE2/SSSE3/SSE4.1(AVX)/AVX2 and the portable backend is proved equal to its scalar word-wise meaning for all operand values, and proved panic-free; complete (no bound) because every harness is loop-free over full-domain inputs.",
             note="Trusted: Kani/CBMC translation; models of PSHUFB, PACKUSWB, PADD* (kani/common/models.rs); AVX and SSE4.1 are the same Rust types and differ only in #[target_feature] code generation.",
             ref="DESIGN.md 4 C12/C13"),
 "C13": dict(technique="Kani function-level contracts (full-domain symbolic values, indices and byte buffers of exact size) per backend x vector type",
             text="Lane/word/storage/byte construction and read-back, insert/extract for every index, transpose4, to_scalars, endian byte I/O and the little-endian packing of the storage unions are proved for all values on every backend; complete (loop-free, full domain).",
             note="Trusted: Kani/CBMC translation; the instruction models listed for C12.",
             ref="DESIGN.md 4 C12/C13"),
 "C19": dict(technique="Kani function-level contracts, full domain, overflow checks on",
             text="Every public method and operator of the five ppv-null types equals plain wrapping scalar arithmetic and cannot panic (debug-profile overflow checks are part of every obligation).",
             note="Preconditions as stated in the property: rotation amounts 1..bits-1, valid lane indices, slices of the vector's length.",
             ref="DESIGN.md 4 C19"),
 "C03": dict(technique="Kani contracts: per-backend leaf contracts of every vector operation (C12/C13) + per-backend wiring of every dispatching algorithm against ONE backend-independent specification, driven through the real dispatch!/dispatch_light128!/dispatch_light256! arms over a CPUID model, plus the no_simd build",
             text="ChaCha narrow+wide, BLAKE-256/512 compress+finalize and JH F8 are each proved equal to a single backend-independent specification on SSE2, SSSE3, SSE4.1, AVX(=SSE4.1 types), AVX2 and the portable backend; equal to the same function implies bit-identical pairwise; panics (unimplemented!) are failed obligations.",
             note="AVX vs SSE4.1 differ only in #[target_feature] code generation (assumed equal). The no-std compile-time dispatch of c2-chacha (cfg!(target_feature) arms) is run in the thorough tier: one harness unit per arm, built with --no-default-features and -C target-feature (DESIGN.md 11.3). quick: leaf ops of the vector types the algorithms use + wiring at the extreme CPU levels; thorough: everything.",
             ref="DESIGN.md 4 C03"),
 "C16": dict(technique="Kani memory-safety obligations (pointer/bounds/memcpy-region checks) inside contract harnesses that hand each byte-slice consumer a buffer of exactly the contract size; aligned-access intrinsics stubbed as must-be-unreachable",
             text="Reads stay inside the input and writes inside the output for vector byte load/store on every backend (exact 16/32/64-byte buffers), ChaCha apply shapes, hash update/finalize shapes, BLAKE/JH compression on exact-size blocks (JH f8 takes a raw pointer), Threefish block I/O; results are functions of slice contents only (CBMC objects have no address). No aligned-access intrinsic is reachable from these entry points.",
             note="Alignment FAULTS are not decidable by either verifier (DESIGN.md 4 C16): the claim is the sufficient reachability contract plus the bounds proofs; a native guard-page/misalignment run (native/refcheck align family) supplies the failing input for a violated obligation. Slice APIs are bounded in per-call length.",
             ref="DESIGN.md 4 C16"),
 "C04": dict(technique="Kani contracts on the mode of operation: finalize/update/default/reset from an arbitrary state with put_block as uninterpreted function + call log",
             text="Compression function == BLAKE specification (G, sigma schedule, constants, counter words, 14/16 rounds, feed-forward) on every backend; padding (0x80, zeros, 0x01/0x00 marker, 0x81 when they coincide, 64/128-bit big-endian length), one-vs-two final blocks, bit counter excluding padding and 0 for a padding-only block, chaining, IVs and truncated big-endian output are proved for a symbolic chaining value and bit counter, so for every message length.",
             note="Compression function: round32/round64 and (un)diagonalize leaf contracts per backend, lemma document formulation == row formulation (real G, all ten sigma rows), put_block wiring through the real dispatch with the round layer as uninterpreted function. Shapes: quick = boundary fills, thorough = every fill.",
             ref="DESIGN.md 4 C04"),
 "C05": dict(technique="Kani contracts on the mode of operation with process_block as contract stub (UBI step uninterpreted) + Threefish contracts (C09)",
             text="Configuration UBI block carrying N, lazy message UBI with first/final flags and byte position, single zero block for the empty message, counter-mode output blocks truncated to N bytes, for output sizes N in a stated finite set, from an arbitrary state (symbolic chaining value and position).",
             note="process_block == one UBI step (key = chaining value, tweak = position/flags, Threefish of the block xor the block) is proved on the real code with MIX as uninterpreted function against the same Threefish specification as C09; MIX itself by the mix contract. N ranges over {1,7,8,20,32,33,64,65} x256, {1,32,64,65} x512, {1,32,64,128,129,200} x1024. Skein256/512<200> dropped: Kani false alarm on the 8-byte tail chunk, cross-checked natively (DESIGN.md 8).",
             ref="DESIGN.md 4 C05"),
 "C06": dict(technique="Kani contracts on the mode of operation with Compressor::input as uninterpreted function + call log; F8 wiring and bit-slice == E8 contracts; Verus conjugation lemma",
             text="Compression function F8 == the JH specification's E8 with the message XORs (see note) on every backend; padding (one block iff block-aligned, else two), 128-bit big-endian bit length, chaining, output = tail of the 1024-bit state, byte counter exact -- for a symbolic chaining value and byte count; initial values.",
             note="F8: ss / l leaf contracts per backend and the wiring of Compressor::input (42 rounds, round-constant selection, swap schedule, message XORs) through the real dispatch. Bit-sliced F8 == the specification's nibble-oriented E8: the bit-slice formulation the crate is proved equal to is related to the JH document's E8 (256 four-bit elements, S0/S1, L, P8, grouping) by computed round-dependent layouts: grouping/de-grouping (J1), one round for each of the 7 layout classes with symbolic state and constant (J2), the 42 bit-sliced round constants decode to C_r = R6(C_{r-1}) from the sqrt(2) seed (J3), layouts well formed and 7-periodic (J4), composed by a Verus conjugation lemma (quick runs J3 as six 7-round segments); initial values == F8(digest-size block, 0). Remaining trust: the instantiation of the generic Verus lemma and the swap operations' C12 contracts.",
             ref="DESIGN.md 4 C06"),
 "C07": dict(technique="Kani contracts on the mode of operation with init/tf/of as uninterpreted functions + call log",
             text="Compression function == specification P and Q (see note); IV = output size big-endian, padding with the 64-bit big-endian block count including padding blocks for every 64-bit counter value, one-vs-two final blocks at the <=8-bytes-left boundary, output transformation and truncation windows, reset of the truncated variants.",
             note="Compression function: one round of P||Q (512) and submix after the spec-derived pre-shuffle (1024, P and Q shift vectors) are proved equal to AddRoundConstant/SubBytes/ShiftBytes/MixBytes of the specification for EVERY byte substitution table (AESENCLAST modelled as ShiftRows, table lookup, xor key: trusted instruction model; the specification's S-box is the AES S-box); tf512/of512/tf1024/of1024/init wiring with the round layer as uninterpreted function against h ^ P(h^m) ^ Q(m) and trunc(P(h)^h); mul2 and the matrix transposes by leaf contracts. The two round lemmas are single 15-minute queries (thorough) and are also partitioned by output columns into 2 x 8 harnesses; quick runs the even column pairs. The #[target_feature] wrapper modules and the lazy_static function-pointer table selected from CPUID are proved to forward to the matching *_impl with unchanged arguments (CPUID model: SSE2-only, SSSE3, AES).",
             ref="DESIGN.md 4 C07"),
 "C08": dict(technique="Kani contracts: abstract-view contract of update ('the stream view grows by exactly the bytes given') from an arbitrary state for all 15 hash types; clone independence; reset/default equality; Verus lemma: any partition folds to the same abstract state (verus/chunking.rs)",
             text="update compresses exactly the complete blocks of pending++data in order with the right counters and keeps the remainder; a hasher's state is a function of the stream view, so every partition gives the same state; clone and reset contracts.",
             note="Per-call shapes (fill, length <= 300); quick: boundary shapes incl. empty pieces on a full/nearly full buffer, thorough: dense grid. The partition-invariance step (eager and lazy buffering, any sequence of pieces) is the Verus lemma verus/chunking.rs over the per-call contract; its instantiation to the Kani contract is by inspection.",
             ref="DESIGN.md 4 C08"),
 "C17": dict(technique="Kani contracts: the counters are symbolic over their full range in the finalize/update contracts of every hash type; Verus contract on the extracted BLAKE increase_count (two-word carry)",
             text="BLAKE t (64/128-bit, carry between the words), Groestl block_counter (all 64 bits), JH datalen (< 2^61 bytes), Skein byte position (< 2^64) are symbolic in the mode-of-operation obligations, so every word-boundary crossing is covered.",
             note="Format limits are preconditions (no wrap of the 2W-bit BLAKE counter, JH bit length < 2^64, Skein position < 2^64).",
             ref="DESIGN.md 4 C17"),
}
BOUND_NOTE = " BOUNDED (not counted as proved beyond the bound): update is proved per (buffer fill, per-call length <= 300 bytes) shape and finalize per fill level (every level in the thorough tier), for symbolic chaining value, counters and data; the number of calls (history) is unbounded."
NOT_YET = "check under construction in this session; not claimed until it is sound and green"
NA_MORE = {}
NA = {
 "C18": "contracts cannot express it: Kani has no threads, Verus would need its permission types on lazy_static/std_detect internals (DESIGN.md 4 C18)",
 "C20": "whether a feature combination compiles is decided by rustc, not by a contract on any function (DESIGN.md 4 C20)",
}
ALL = ["C%02d" % i for i in range(1, 21)]

def main():
    checks = []
    for pid, c in CLAIMED.items():
        checks.append({
            "property_id": pid,
            "quick_cmd": "./check %s --tier quick" % pid,
            "thorough_cmd": "./check %s --tier thorough" % pid,
            "evidence_file": "/verif/evidence/%s.json" % pid,
            "replay_cmd_template": "./check --replay {path}",
            "engine": "kani+cbmc" if "verus" not in c["technique"].lower() else "kani+cbmc, verus+z3",
            "level_claimed": {"category": "proof", "text": c["text"], "design_ref": c["ref"]},
            "level_note": c["note"] + (BOUND_NOTE if pid in ("C04", "C05", "C06", "C07", "C17", "C16") else ""),
            "technique": c["technique"],
        })
    na = []
    for pid in ALL:
        if pid in CLAIMED:
            continue
        na.append({"property_id": pid, "reason": NA.get(pid, NA_MORE.get(pid, NOT_YET))})
    m = {
        "version": 1,
        "setup_cmd": "./check --setup",
        "hooks": {
            "guard": "--cfg cryptocorrosion_verif",
            "enable": "RUSTFLAGS='--cfg zerocopy_derive_union_into_bytes --cfg cryptocorrosion_verif' with CRYPTOCORROSION_VERIF_DIR=/verif (set by ./check)",
            "baseline_off_cmd": "cd /repo && cargo test --workspace --no-fail-fast --offline",
            "source_commits": HOOK_COMMITS,
            "add_only": True,
        },
        "engines": [
            {"name": "kani", "path": "/verif/lib/kanirun.py", "serves_properties": sorted(CLAIMED), "kind_free_text": "Kani 0.68 contracts/harnesses on the real crates, CBMC 6.11 + CaDiCaL"},
            {"name": "verus", "path": "/verif/lib/verusrun.py", "serves_properties": ["C02", "C06", "C08", "C09", "C10", "C11", "C17"], "kind_free_text": "Verus 0.2026.09.13 + Z3: loop invariants on code extracted mechanically from rustc's expansion (lib/verus_extract.py), and induction lemmas over the Kani contracts"},
            {"name": "refcheck", "path": "/verif/lib/refcheck.py", "serves_properties": ["C01", "C02", "C04", "C05", "C06", "C07", "C08", "C09", "C10", "C11", "C14", "C16", "C17"], "kind_free_text": "native search for a concrete failing input behind a violated obligation (real crates vs references assembled from spec/*.rs); replay support only, never counted as an obligation"},
        ],
        "checks": checks,
        "not_applicable": na,
        "notes": "Contract-based deductive verification; see DESIGN.md. Genuine defects repaired by fix: commits are listed in known_findings.json.",
    }
    json.dump(m, open(os.path.join(VERIF, "MANIFEST.json"), "w"), indent=1)
    print("MANIFEST.json written:", len(checks), "checks")

HOOK_COMMITS = ['08d26ed', '3aa2f4a', 'a29741f', '70deee0', '7dd6e23', '8d14d16', '0a1406b', 'a088e70']
if __name__ == "__main__":
    main()
