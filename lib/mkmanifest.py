#!/usr/bin/env python3
"""Regenerates MANIFEST.json from the tables below (run after changing what is claimed)."""
import json, os, sys
HERE = os.path.dirname(os.path.abspath(__file__))
sys.path.insert(0, HERE)
VERIF = os.path.dirname(HERE)

CLAIMED = {
 "C12": dict(technique="Kani function-level contracts (full-domain symbolic operands, loop-free) per backend x vector type x operation",
             text="Every operation of every Machine vector type on SSE2/SSSE3/SSE4.1(AVX)/AVX2 and the portable backend is proved equal to its scalar word-wise meaning for all operand values, and proved panic-free; complete (no bound) because every harness is loop-free over full-domain inputs.",
             note="Trusted: Kani/CBMC translation; models of PSHUFB, PACKUSWB, PADD* (kani/common/models.rs); AVX and SSE4.1 are the same Rust types and differ only in #[target_feature] code generation.",
             ref="DESIGN.md 4 C12/C13"),
 "C13": dict(technique="Kani function-level contracts (full-domain symbolic values, indices and byte buffers of exact size) per backend x vector type",
             text="Lane/word/storage/byte construction and read-back, insert/extract for every index, transpose4, to_scalars, endian byte I/O and the little-endian packing of the storage unions are proved for all values on every backend; complete (loop-free, full domain).",
             note="Trusted: Kani/CBMC translation; the instruction models listed for C12.",
             ref="DESIGN.md 4 C12/C13"),
}
NOT_YET = "check under construction in this session; not claimed until it is sound and green"
NA = {
 "C18": "contracts cannot express it: Kani has no threads, Verus would need its permission types on lazy_static/std_detect internals (DESIGN.md 4 C18)",
 "C20": "whether a feature combination compiles is decided by rustc, not by a contract on any function (DESIGN.md 4 C20)",
}
ALL = ["C%02d" % i for i in range(1, 21)]

def main():
    checks = []
    for pid, c in CLAIMED.items():
        checks.append({
            "property_id": pid,
            "quick_cmd": "./check %s --tier quick" % pid,
            "thorough_cmd": "./check %s --tier thorough" % pid,
            "evidence_file": "/verif/evidence/%s.json" % pid,
            "replay_cmd_template": "./check --replay {path}",
            "engine": "kani+cbmc" if "verus" not in c["technique"].lower() else "kani+cbmc, verus+z3",
            "level_claimed": {"category": "proof", "text": c["text"], "design_ref": c["ref"]},
            "level_note": c["note"],
            "technique": c["technique"],
        })
    na = []
    for pid in ALL:
        if pid in CLAIMED:
            continue
        na.append({"property_id": pid, "reason": NA.get(pid, NOT_YET)})
    m = {
        "version": 1,
        "setup_cmd": "./check --setup",
        "hooks": {
            "guard": "--cfg cryptocorrosion_verif",
            "enable": "RUSTFLAGS='--cfg zerocopy_derive_union_into_bytes --cfg cryptocorrosion_verif' with CRYPTOCORROSION_VERIF_DIR=/verif (set by ./check)",
            "baseline_off_cmd": "cd /repo && cargo test --workspace --no-fail-fast --offline",
            "source_commits": HOOK_COMMITS,
            "add_only": True,
        },
        "engines": [
            {"name": "kani", "path": "/verif/lib/kanirun.py", "serves_properties": sorted(CLAIMED), "kind_free_text": "Kani 0.68 contracts/harnesses on the real crates, CBMC 6.11 + CaDiCaL"},
        ],
        "checks": checks,
        "not_applicable": na,
        "notes": "Contract-based deductive verification; see DESIGN.md. Genuine defects repaired by fix: commits are listed in known_findings.json.",
    }
    json.dump(m, open(os.path.join(VERIF, "MANIFEST.json"), "w"), indent=1)
    print("MANIFEST.json written:", len(checks), "checks")

HOOK_COMMITS = []
if __name__ == "__main__":
    main()
