"""Kani pipeline: instantiate a harness crate against /repo's working tree, run Kani's own
compiler once (`cargo kani --only-codegen`), then run Kani's post-processing and CBMC per harness in
parallel with exactly the commands `cargo kani` itself issues (observed with strace on 0.68.0), and parse
CBMC's property table.  `cargo kani` proper is used again for concrete playback of a failed harness."""
import concurrent.futures as cf
import glob, json, os, re, shutil, time

from common import *

CBMC_BASE = ["--no-malloc-may-fail", "--no-undefined-shift-check", "--no-signed-overflow-check",
             "--nan-check", "--no-self-loops-to-assumptions", "--no-pointer-primitive-check",
             "--object-bits", "16"]
CBMC_TAIL = ["--sat-solver", "cadical", "--slice-formula"]

REC_RE = re.compile(r"^\[(?P<head>.*?\.\d+)\] (?:line (?P<line>\d+) )?(?P<desc>.*): (?P<st>SUCCESS|FAILURE|UNKNOWN|ERROR)$")
HEAD_RE = re.compile(r"^(?:(?P<name>.*)\.)?(?P<cls>[a-zA-Z_-]+)\.(?P<n>\d+)$")
HEAD2_RE = re.compile(r"^(?P<name>.*)\.(?P<n>\d+)$")
HDR_RE = re.compile(r"^(?P<file>\S.*) function (?P<fn>.*)$")
ID_RE = re.compile(r"\[(KANI_CHECK_ID_[^\]]+)\] ?")

TOOL_LIMIT_PAT = re.compile(r"not currently supported by Kani|unsupported construct|undefined function should be unreachable|"
                            r"is not supported|Kani does not support|reached unsupported")


def instantiate(template, dest, subst):
    shutil.copytree(template, dest, symlinks=False)
    common = os.path.join(VERIF, "kani", "common")
    if os.path.isdir(common):
        shutil.copytree(common, os.path.join(dest, "common"))
    spec = os.path.join(VERIF, "spec")
    if os.path.isdir(spec):
        shutil.copytree(spec, os.path.join(dest, "spec"))
    for root, _, files in os.walk(dest):
        for fn in files:
            if fn.endswith((".toml", ".rs")):
                p = os.path.join(root, fn)
                s = open(p).read()
                s2 = s
                for k, v in subst.items():
                    s2 = s2.replace(k, v)
                if s2 != s:
                    open(p, "w").write(s2)
    lock = os.path.join(REPO, "Cargo.lock")
    if os.path.exists(lock):
        shutil.copy(lock, os.path.join(dest, "Cargo.lock"))


def kani_env(rustflags=None, extra=None):
    env = dict(ENV)
    if rustflags:
        env["RUSTFLAGS"] = (env.get("RUSTFLAGS", "") + " " + rustflags).strip()
    env["CRYPTOCORROSION_VERIF_DIR"] = VERIF
    if extra:
        env.update(extra)
    return env


def codegen(crate_dir, zflags=(), cargo_args=(), rustflags=None, harness_filters=None, timeout=1800, exact=False):
    """Runs kani-compiler for all (or the filtered) harnesses. Returns (ok, log, [harness metadata])."""
    t0 = time.time()
    cmd = ["cargo", "kani", "--only-codegen"]
    for z in zflags:
        cmd += ["-Z", z]
    cmd += list(cargo_args)
    for h in harness_filters or []:
        cmd += ["--harness", h]
    if exact and harness_filters:
        cmd += ["--exact"]
    rc, out, secs, to = run(cmd, cwd=crate_dir, env=kani_env(rustflags), timeout=timeout)
    if rc != 0 or to:
        return False, out, [], " ".join(cmd)
    mds = []
    for f in glob.glob(os.path.join(crate_dir, "target", "kani", "**", "*.kani-metadata.json"), recursive=True):
        if os.path.getmtime(f) < t0 - 1:
            continue
        d = json.load(open(f))
        for h in d.get("proof_harnesses", []):
            if os.path.exists(h["goto_file"]):
                mds.append(h)
    # de-duplicate by pretty_name (keep newest file)
    seen = {}
    for h in mds:
        seen[h["pretty_name"]] = h
    return True, out, list(seen.values()), " ".join(cmd)


def parse_cbmc(out):
    """Parse CBMC's property table.  A record starts with '[name.class.N]' at the beginning of a line
    and ends with ': STATUS' at the end of a line; descriptions may contain line breaks (Kani prints
    the source text of assert! messages), so records are re-joined before matching."""
    checks = []
    cur_file, cur_fn = None, None
    END = re.compile(r": (SUCCESS|FAILURE|UNKNOWN|ERROR|UNREACHABLE|SATISFIED|UNSATISFIABLE)$")
    START = re.compile(r"^\[.*\.\d+\] ")
    buf = None
    records = []
    for ln in out.splitlines():
        if buf is not None:
            buf += " " + ln.strip()
            if END.search(ln):
                records.append(buf)
                buf = None
            continue
        if START.match(ln):
            if END.search(ln):
                records.append(ln)
            else:
                buf = ln
            continue
        h = HDR_RE.match(ln)
        if h:
            records.append(("HDR", h.group("file"), h.group("fn")))
    for rec in records:
        if isinstance(rec, tuple):
            cur_file, cur_fn = rec[1], rec[2]
            continue
        m = REC_RE.match(rec)
        if not m:
            continue
        d = m.groupdict()
        hm = HEAD_RE.match(d["head"])
        if hm:
            d.update(hm.groupdict())
        else:
            h2 = HEAD2_RE.match(d["head"])
            if not h2:
                continue
            d.update(name=h2.group("name"), cls="misc", n=h2.group("n"))
        d["line"] = d.get("line") or "0"
        desc = d["desc"]
        idm = ID_RE.search(desc)
        cid = idm.group(1) if idm else None
        if d["cls"] == "reachability_check":
            cid = desc.strip()
        checks.append({"fn": d["name"] or "", "cls": d["cls"], "n": int(d["n"]), "line": int(d["line"] or 0),
                       "desc": ID_RE.sub("", desc).strip(), "id": cid, "status": d["st"], "file": cur_file})
    return checks


def verify_one(h, timeout, mem_gb, extra_cbmc=()):
    """Kani's post-codegen pipeline for one harness.  Returns a result dict."""
    sym = h["goto_file"]
    outf = sym[:-len(".symtab.out")] + ".out"
    steps = [
        [os.path.join(KANI_BIN, "goto-cc"), sym, os.path.join(KANI_HOME, "library/kani/kani_lib.c"), "-o", outf],
        [os.path.join(KANI_BIN, "goto-cc"), outf, "--function", h["mangled_name"], "-o", outf],
        [os.path.join(KANI_BIN, "goto-instrument"), "--add-library", "--no-malloc-may-fail", outf, outf],
        [os.path.join(KANI_BIN, "goto-instrument"), "--generate-function-body-options", "assert-false-assume-false",
         "--generate-function-body", ".*", "--drop-unused-functions", outf, outf],
        [os.path.join(KANI_BIN, "goto-instrument"), "--ensure-one-backedge-per-target", outf, outf],
    ]
    t0 = time.time()
    res = {"harness": h["pretty_name"], "stubs": [s["original"].replace(" ", "") for s in h["attributes"].get("stubs", [])],
           "unwind": h["attributes"].get("unwind_value")}
    for st in steps:
        rc, out, secs, to = run(st, timeout=600, mem_gb=mem_gb)
        if rc != 0 or to:
            res.update(status="undecided", reason="pipeline step failed: %s" % os.path.basename(st[0]), log=out[-4000:],
                       secs=time.time() - t0)
            return res
    cmd = [os.path.join(KANI_BIN, "cbmc")] + CBMC_BASE
    uw = h["attributes"].get("unwind_value")
    if uw is not None:
        cmd += ["--unwind", str(uw)]
    solver = h["attributes"].get("solver")
    tail = list(CBMC_TAIL)
    if isinstance(solver, str) and solver.lower() == "minisat":
        tail = ["--slice-formula"]
    elif isinstance(solver, str) and solver.lower() == "kissat":
        tail = ["--external-sat-solver", os.path.join(KANI_BIN, "kissat"), "--slice-formula"]
    cmd += tail + list(extra_cbmc) + [outf]
    rc, out, secs, to = run(cmd, timeout=timeout, mem_gb=mem_gb)
    res["cbmc_cmd"] = " ".join(cmd)
    res["secs"] = time.time() - t0
    res["solver_s"] = secs
    if to:
        res.update(status="undecided", reason="timeout after %ds" % timeout)
        return res
    if rc not in (0, 10):
        reason = "cbmc exit %s" % rc
        if "out of memory" in out.lower() or "bad_alloc" in out or rc in (-9, -6, 137, 134):
            reason = "memory cap (%s GB) / abort" % mem_gb
        res.update(status="undecided", reason=reason, log=out[-3000:])
        return res
    checks = parse_cbmc(out)
    if not checks:
        res.update(status="undecided", reason="no CBMC property table parsed", log=out[-3000:])
        return res
    res["checks"] = checks
    res["raw_tail"] = out[-1500:]
    # cross-check the parser against CBMC's own summary ("** N of M failed")
    sm = re.search(r"\*\* (\d+) of (\d+) failed", out)
    if sm:
        n_fail, n_tot = int(sm.group(1)), int(sm.group(2))
        if n_tot != len(checks) or n_fail != sum(1 for c in checks if c["status"] == "FAILURE"):
            res.update(status="undecided", reason="property table parse mismatch: parsed %d/%d, CBMC reports %d/%d" %
                       (sum(1 for c in checks if c["status"] == "FAILURE"), len(checks), n_fail, n_tot), log=out[-2000:])
            del res["checks"]
            return res
    else:
        res.update(status="undecided", reason="no CBMC summary line", log=out[-2000:])
        del res["checks"]
        return res
    classify(res)
    return res


def classify(res):
    checks = res["checks"]
    reach = {}
    for c in checks:
        if c["cls"] == "reachability_check":
            # inverted by Kani: FAILURE = the check location is reachable
            reach[c["id"]] = (c["status"] == "FAILURE")
    failed, tool, obls, covers = [], [], [], []
    n_safety = 0
    for c in checks:
        if c["cls"] == "reachability_check":
            continue
        if c["cls"] == "cover":
            covers.append({"desc": c["desc"], "covered": c["status"] == "FAILURE" or c["status"] == "SATISFIED"})
            continue
        desc = c["desc"]
        mm = re.search(r'concat ?! ?\("OBL ", "([^"]*)"\)', desc)
        if mm:
            desc = c["desc"] = "OBL " + mm.group(1)
        is_obl = "OBL " in desc
        reached = reach.get(c["id"], None)
        if is_obl:
            name = desc[desc.index("OBL ") + 4:].strip().strip('"')
            if name.startswith("!"):
                # must-be-unreachable obligation: discharged iff the location is not reachable
                ok_unreach = (reached is False) or (c["status"] == "SUCCESS")
                obls.append({"name": name, "status": "SUCCESS" if ok_unreach else "FAILURE", "reached": True, "line": c["line"], "fn": c["fn"]})
                if not ok_unreach:
                    failed.append(c)
                continue
            obls.append({"name": name, "status": c["status"], "reached": reached, "line": c["line"], "fn": c["fn"]})
            if c["status"] == "FAILURE":
                failed.append(c)
            continue
        n_safety += 1
        if c["status"] != "SUCCESS":
            if c["cls"] == "unwind" or TOOL_LIMIT_PAT.search(c["desc"]) or c["cls"] == "unsupported_construct":
                tool.append(c)
            else:
                failed.append(c)
    res["obligations"] = obls
    res["covers"] = covers
    res["n_safety_checks"] = n_safety
    res["failed"] = [{"fn": c["fn"], "cls": c["cls"], "line": c["line"], "desc": c["desc"], "file": c["file"]} for c in failed]
    res["tool_limits"] = [{"fn": c["fn"], "cls": c["cls"], "line": c["line"], "desc": c["desc"]} for c in tool]
    unreached = [o for o in obls if o["status"] == "SUCCESS" and o["reached"] is False and not o["name"].startswith("?")]
    res["unreached"] = [o["name"] for o in unreached]
    del res["checks"]
    if failed:
        res["status"] = "failed"
    elif tool:
        res["status"] = "undecided"
        res["reason"] = "tool limit: " + "; ".join(sorted({t["desc"][:120] for t in tool}))
    elif not obls:
        res["status"] = "undecided"
        res["reason"] = "vacuous: harness contains no named obligation (OBL assertion)"
    elif unreached:
        res["status"] = "undecided"
        res["reason"] = "vacuous: obligation(s) not reachable: " + ", ".join(res["unreached"][:5])
    elif any(not c["covered"] for c in covers):
        res["status"] = "undecided"
        res["reason"] = "vacuous: cover not satisfied: " + ", ".join(c["desc"] for c in covers if not c["covered"])[:300]
    else:
        res["status"] = "discharged"


def run_harnesses(harnesses, timeout, mem_gb, jobs=None, progress=None):
    results = []
    jobs = jobs or NCPU
    with cf.ThreadPoolExecutor(max_workers=jobs) as ex:
        futs = {ex.submit(verify_one, h, (h.get("_timeout") or timeout), mem_gb, tuple(h.get("_cbmc_args") or ())): h for h in harnesses}
        for f in cf.as_completed(futs):
            r = f.result()
            results.append(r)
            if progress:
                progress(r)
    results.sort(key=lambda r: r["harness"])
    return results


PLAYBACK_RE = re.compile(r"vec!\[((?:\s*\d+\s*,?)*)\]")


def concrete_playback(crate_dir, harness, zflags, cargo_args, rustflags, timeout=1800):
    """Re-run a failed harness through cargo kani proper to get concrete values."""
    cmd = ["cargo", "kani", "-Z", "concrete-playback", "--concrete-playback=print", "--harness", harness, "--exact"]
    for z in zflags:
        cmd += ["-Z", z]
    cmd += list(cargo_args)
    rc, out, secs, to = run(cmd, cwd=crate_dir, env=kani_env(rustflags), timeout=timeout, mem_gb=24)
    vals = []
    if "concrete_vals" in out:
        seg = out[out.index("concrete_vals"):]
        end = seg.find("kani::concrete_playback_run")
        seg = seg[:end if end > 0 else None]
        # skip the outer vec![
        first = seg.index("vec![") + 5
        for m in PLAYBACK_RE.finditer(seg[first:]):
            body = m.group(1).strip()
            vals.append([int(x) for x in body.replace(" ", "").split(",") if x != ""])
    failed = re.findall(r"Failed Checks: (.*)", out)
    return {"cmd": " ".join(cmd), "values": vals, "failed_checks": failed, "timed_out": to, "tail": out[-2500:]}
