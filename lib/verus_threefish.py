"""Builds, on every run, the Verus input for Threefish encrypt/decrypt cores from rustc's macro
expansion of /repo's threefish-cipher (DESIGN.md 3.3), splicing contracts and loop invariants from the
templates below.  What the extraction changes (and nothing else):
  * the byte<->word prologue/epilogue (`read_u64v_le` into `v`, `write_u64v_le` from `v`) is replaced
    by a parameter `v_in: [u64; Nw]` and a returned `[u64; Nw]`; the `&mut GenericArray` parameter is
    dropped (Verus has no GenericArray / iterator adapters).  Those lines are verified by Kani
    (kani/threefish: c09_le_io and the byte-level wiring harnesses).
  * `const d: usize = K;` -> `let d: usize = K;`  (Verus rejects two block-local consts of one name)
  * `for i in (a..b).rev() BODY` -> descending `while` (decrypt; and `for d in (0..8).rev()` under
    no_unroll)
  * `#[derive..]`/visibility on the struct are dropped; constants R_*, P_* are copied verbatim from
    the expansion (NOT from the specification: the spec functions carry their own tables).
"""
import os, re
from verus_extract import *

SIZES = {
    256: dict(nw=4, nr=72, R="R_256", P="P_256", T="Threefish256",
              Rspec=[[14, 16], [52, 57], [23, 40], [5, 37], [25, 33], [46, 12], [58, 22], [32, 32]],
              PI=[0, 3, 2, 1]),
    512: dict(nw=8, nr=72, R="R_512", P="P_512", T="Threefish512",
              Rspec=[[46, 36, 19, 37], [33, 27, 14, 42], [17, 49, 36, 39], [44, 9, 54, 56],
                     [39, 30, 34, 24], [13, 50, 10, 17], [25, 29, 39, 43], [8, 35, 56, 22]],
              PI=[2, 1, 4, 7, 6, 5, 0, 3]),
    1024: dict(nw=16, nr=80, R="R_1024", P="P_1024", T="Threefish1024",
               Rspec=[[24, 13, 8, 47, 8, 17, 22, 37], [38, 19, 10, 55, 49, 18, 23, 52], [33, 4, 51, 13, 34, 41, 59, 17],
                      [5, 20, 48, 41, 47, 28, 16, 25], [41, 9, 37, 31, 12, 47, 44, 30], [16, 34, 56, 51, 4, 53, 42, 41],
                      [31, 44, 47, 46, 19, 42, 44, 25], [9, 48, 35, 52, 23, 31, 37, 20]],
               PI=[0, 9, 2, 13, 6, 11, 4, 15, 10, 7, 12, 3, 14, 5, 8, 1]),
}

PRELUDE = r'''
use vstd::prelude::*;
verus! {

// ---- machine-integer operations (each assumed specification is discharged by Kani on the real
//      core implementation: kani/threefish c09_mix_contract compares mix/inv_mix, which are exactly
//      these operations, with the specification for all inputs)
pub open spec fn add64(a: u64, b: u64) -> u64 { vstd::wrapping::u64_specs::wrapping_add(a, b) }
pub open spec fn sub64(a: u64, b: u64) -> u64 { vstd::wrapping::u64_specs::wrapping_sub(a, b) }
pub uninterp spec fn rotl64(x: u64, r: u32) -> u64;
pub uninterp spec fn rotr64(x: u64, r: u32) -> u64;
pub assume_specification[ u64::rotate_left ](x: u64, n: u32) -> (r: u64) ensures r == rotl64(x, n);
pub assume_specification[ u64::rotate_right ](x: u64, n: u32) -> (r: u64) ensures r == rotr64(x, n);
// u64::wrapping_add / wrapping_sub carry vstd's own specifications (u64_specs::wrapping_add/sub)

pub open spec fn mix_spec(r: u32, x0: u64, x1: u64) -> (u64, u64) {
    let y0 = add64(x0, x1);
    (y0, rotl64(x1, r) ^ y0)
}
pub open spec fn inv_mix_spec(r: u32, y0: u64, y1: u64) -> (u64, u64) {
    let x1 = rotr64(y0 ^ y1, r);
    (sub64(y0, x1), x1)
}
'''


def spec_fns(sz):
    c = SIZES[sz]
    nw, nr = c["nw"], c["nr"]
    rrows = ", ".join("seq![" + ", ".join("%du32" % x for x in row) + "]" for row in c["Rspec"])
    pis = ", ".join("%dint" % x for x in c["PI"])
    inv = [0] * nw
    for i, p in enumerate(c["PI"]):
        inv[p] = i
    pinv = ", ".join("%dint" % x for x in inv)
    return f'''
// ---- Threefish-{sz} specification (Skein 1.3, section 3.3; tables 3 and 4 copied from the paper)
pub open spec fn R_spec() -> Seq<Seq<u32>> {{ seq![{rrows}] }}
pub open spec fn PI() -> Seq<int> {{ seq![{pis}] }}      // v_(d+1)[i] = f_d[PI(i)]
pub open spec fn PI_INV() -> Seq<int> {{ seq![{pinv}] }}
pub open spec fn tf_e(v: Seq<u64>, sk: Seq<Seq<u64>>, d: int) -> Seq<u64> {{
    Seq::new({nw}, |i: int| if d % 4 == 0 {{ add64(v[i], sk[d / 4][i]) }} else {{ v[i] }})
}}
pub open spec fn tf_f(v: Seq<u64>, sk: Seq<Seq<u64>>, d: int) -> Seq<u64> {{
    Seq::new({nw}, |i: int| {{
        let e = tf_e(v, sk, d);
        let m = mix_spec(R_spec()[d % 8][i / 2], e[2 * (i / 2)], e[2 * (i / 2) + 1]);
        if i % 2 == 0 {{ m.0 }} else {{ m.1 }}
    }})
}}
pub open spec fn tf_round(v: Seq<u64>, sk: Seq<Seq<u64>>, d: int) -> Seq<u64> {{
    Seq::new({nw}, |i: int| tf_f(v, sk, d)[PI()[i]])
}}
pub open spec fn tf_rounds(v: Seq<u64>, sk: Seq<Seq<u64>>, n: int) -> Seq<u64>
    decreases n
{{
    if n <= 0 {{ v }} else {{ tf_round(tf_rounds(v, sk, n - 1), sk, n - 1) }}
}}
pub open spec fn tf_encrypt(v: Seq<u64>, sk: Seq<Seq<u64>>) -> Seq<u64> {{
    Seq::new({nw}, |i: int| add64(tf_rounds(v, sk, {nr})[i], sk[{nr // 4}][i]))
}}
// inverse direction: undo round d = undo the permutation, inverse MIX, remove the subkey
pub open spec fn tf_inv_round(w: Seq<u64>, sk: Seq<Seq<u64>>, d: int) -> Seq<u64> {{
    Seq::new({nw}, |i: int| {{
        let m = inv_mix_spec(R_spec()[d % 8][i / 2], w[PI_INV()[2 * (i / 2)]], w[PI_INV()[2 * (i / 2) + 1]]);
        let e = if i % 2 == 0 {{ m.0 }} else {{ m.1 }};
        if d % 4 == 0 {{ sub64(e, sk[d / 4][i]) }} else {{ e }}
    }})
}}
/// the last k inverse rounds of an n-round cipher applied to w: rounds n-1, n-2, ..., n-k
pub open spec fn tf_dec_rounds(w: Seq<u64>, sk: Seq<Seq<u64>>, n: int, k: int) -> Seq<u64>
    decreases k
{{
    if k <= 0 {{ w }} else {{ tf_inv_round(tf_dec_rounds(w, sk, n, k - 1), sk, n - k) }}
}}
pub open spec fn tf_unkey(w: Seq<u64>, sk: Seq<Seq<u64>>) -> Seq<u64> {{
    Seq::new({nw}, |i: int| sub64(w[i], sk[{nr // 4}][i]))
}}
pub open spec fn tf_decrypt(w: Seq<u64>, sk: Seq<Seq<u64>>) -> Seq<u64> {{
    tf_dec_rounds(tf_unkey(w, sk), sk, {nr}, {nr})
}}
'''


def build(sz, expanded, no_unroll):
    """returns the Verus source text for Threefish-<sz> from the expansion"""
    c = SIZES[sz]
    nw, nr, T = c["nw"], c["nr"], c["T"]
    consts = cut_const(expanded, c["R"]) + "\n" + cut_const(expanded, c["P"])
    struct = cut_item(expanded, r"pub struct %s\s*\{" % T)
    mixfn = cut_item(expanded, r"\nfn mix\(r: u32, x: \(u64, u64\)\) -> \(u64, u64\)\s*\{")
    invmixfn = cut_item(expanded, r"\nfn inv_mix\(r: u32, y: \(u64, u64\)\) -> \(u64, u64\)\s*\{")
    enc_impl = cut_item(expanded, r"impl BlockEncrypt for %s\s*\{" % T)
    dec_impl = cut_item(expanded, r"impl BlockDecrypt for %s\s*\{" % T)
    enc = cut_fn_body(enc_impl, r"fn encrypt_block\(&self,\s*block:\s*&mut GenericArray<u8,\s*Self::BlockSize>\)\s*\{")
    dec = cut_fn_body(dec_impl, r"fn decrypt_block\(&self,\s*block:\s*&mut GenericArray<u8,\s*Self::BlockSize>\)\s*\{")

    # --- closed list of rewrites -------------------------------------------------------------
    enc = rewrite(enc, r"let mut v = \[0u64; %d\];\s*read_u64v_le\(&mut v, block\);" % nw, "let mut v = v_in;", 1, "encrypt prologue")
    enc = rewrite(enc, r"write_u64v_le\(block, &v\[\.\.\]\);", "v", 1, "encrypt epilogue")
    dec = rewrite(dec, r"let mut v = \[0u64; %d\];\s*read_u64v_le\(&mut v, &block\[\.\.\]\);" % nw, "let mut v = v_in;", 1, "decrypt prologue")
    dec = rewrite(dec, r"write_u64v_le\(block, &v\[\.\.\]\);", "v", 1, "decrypt epilogue")
    if not no_unroll:
        enc = rewrite(enc, r"const d: usize = (\d);", r"let d: usize = \1;", 8, "unrolled const d (encrypt)")
        dec = rewrite(dec, r"const d: usize = (\d);", r"let d: usize = \1;", 8, "unrolled const d (decrypt)")
    # descending loops of decrypt -> while
    dec = rewrite(dec, r"for i in \(0\.\.%d / 8\)\.rev\(\) \{" % nr,
                  "let mut i_: usize = %d / 8; while i_ > 0 { i_ = i_ - 1; let i = i_;" % nr, 1, "decrypt outer .rev()")
    if no_unroll:
        dec = rewrite(dec, r"for d in \(0\.\.8\)\.rev\(\) \{", "let mut d_: usize = 8; while d_ > 0 { d_ = d_ - 1; let d = d_;", 1, "decrypt d .rev()")
    struct = rewrite(struct, r"pub struct", "pub struct", 1, "struct")

    SK = "self.skv()"
    # --- invariants --------------------------------------------------------------------------
    def inner_enc(dexpr):
        return dict(
            before="proof { assert(v_tmp@ =~= v@); }",
            inv=f'''invariant
                i < {nr // 8}, d == {dexpr}, d < 8, self.wf(),
                v_tmp@ == tf_rounds(v_in@, {SK}, 8 * (i as int) + ({dexpr} as int)),
                forall|x: int| 0 <= x < {nw} && PI()[x] < 2 * j ==> #[trigger] v@[x] == tf_f(v_tmp@, {SK}, 8 * (i as int) + ({dexpr} as int))[PI()[x]],''',
            body_end=f'''proof {{
                let dd = 8 * (i as int) + ({dexpr} as int);
                assert(dd % 8 == ({dexpr} as int) && dd / 4 == 2 * (i as int) + ({dexpr} as int) / 4 && (dd % 4 == 0) == (({dexpr} as int) % 4 == 0));
                assert(r == R_spec()[dd % 8][j as int]);               // the crate's rotation table vs the paper's
                assert(PI()[pi0 as int] == 2 * j && PI()[pi1 as int] == 2 * j + 1);   // the crate's (inverse) permutation table vs the paper's
                assert(f0 == tf_f(v_tmp@, {SK}, dd)[2 * (j as int)]);
                assert(f1 == tf_f(v_tmp@, {SK}, dd)[2 * (j as int) + 1]);
            }}''',
            after=f"proof {{ assert(v@ =~= tf_round(v_tmp@, {SK}, 8 * (i as int) + ({dexpr} as int))); }}")

    def inner_dec(dexpr):
        return dict(
            before="proof { assert(v_tmp@ =~= v@); }",
            inv=f'''invariant
                i < {nr // 8}, d == {dexpr}, d < 8, self.wf(),
                v_tmp@ == tf_dec_rounds(tf_unkey(v_in@, {SK}), {SK}, {nr}, {nr}int - (8 * (i as int) + ({dexpr} as int)) - 1),
                forall|x: int| 0 <= x < 2 * j ==> #[trigger] v@[x] == tf_inv_round(v_tmp@, {SK}, 8 * (i as int) + ({dexpr} as int))[x],''',
            after=f"proof {{ assert(v@ =~= tf_inv_round(v_tmp@, {SK}, 8 * (i as int) + ({dexpr} as int))); }}")

    final_enc = dict(
        before=f"let ghost vr = v@;",
        inv=f'''invariant
                self.wf(), vr == tf_rounds(v_in@, {SK}, {nr}),
                forall|x: int| 0 <= x < i ==> #[trigger] v@[x] == add64(vr[x], {SK}[{nr // 4}][x]),
                forall|x: int| i <= x < {nw} ==> #[trigger] v@[x] == vr[x],''',
        after=f"proof {{ assert(v@ =~= tf_encrypt(v_in@, {SK})); }}")
    unkey_dec = dict(
        inv=f'''invariant
                self.wf(),
                forall|x: int| 0 <= x < i ==> #[trigger] v@[x] == sub64(v_in@[x], {SK}[{nr // 4}][x]),
                forall|x: int| i <= x < {nw} ==> #[trigger] v@[x] == v_in@[x],''',
        after=f"proof {{ assert(v@ =~= tf_unkey(v_in@, {SK})); }}")

    if not no_unroll:
        enc_specs = [dict(inv=f"invariant self.wf(), v@ == tf_rounds(v_in@, {SK}, 8 * (i as int)),")]
        enc_specs += [inner_enc(str(d)) for d in range(8)]
        enc_specs += [final_enc]
        dec_specs = [unkey_dec,
                     dict(inv=f"invariant i_ <= {nr // 8}, self.wf(), v@ == tf_dec_rounds(tf_unkey(v_in@, {SK}), {SK}, {nr}, {nr}int - 8 * (i_ as int)), decreases i_,")]
        dec_specs += [inner_dec(str(d)) for d in (7, 6, 5, 4, 3, 2, 1, 0)]
    else:
        enc_specs = [dict(inv=f"invariant self.wf(), v@ == tf_rounds(v_in@, {SK}, 8 * (i as int)),"),
                     dict(inv=f"invariant i < {nr // 8}, self.wf(), v@ == tf_rounds(v_in@, {SK}, 8 * (i as int) + (d as int)),"),
                     inner_enc("d"), final_enc]
        dec_specs = [unkey_dec,
                     dict(inv=f"invariant i_ <= {nr // 8}, self.wf(), v@ == tf_dec_rounds(tf_unkey(v_in@, {SK}), {SK}, {nr}, {nr}int - 8 * (i_ as int)), decreases i_,"),
                     dict(inv=f"invariant d_ <= 8, i < {nr // 8}, self.wf(), v@ == tf_dec_rounds(tf_unkey(v_in@, {SK}), {SK}, {nr}, {nr}int - (8 * (i as int) + (d_ as int))), decreases d_,"),
                     inner_dec("d")]
    enc = annotate_loops(enc, enc_specs)
    dec = annotate_loops(dec, dec_specs)

    rows = nr // 4 + 1
    struct_clean = re.sub(r"#\[derive\([^)]*\)\]\s*", "", struct)
    mixs, invs = mixfn.strip(), invmixfn.strip()
    mix_head, mix_body = mixs[:mixs.index("{")], mixs[mixs.index("{"):]
    inv_head, inv_body = invs[:invs.index("{")], invs[invs.index("{"):]
    text = PRELUDE + spec_fns(sz) + f'''
// ---- extracted verbatim from the expansion of /repo/block-ciphers/threefish/src/consts.rs
{consts}

// ---- extracted from the expansion of /repo/block-ciphers/threefish/src/lib.rs
{struct_clean}
impl {T} {{
    pub closed spec fn skv(&self) -> Seq<Seq<u64>> {{ Seq::new({rows}, |s: int| self.sk[s]@) }}
    pub closed spec fn wf(&self) -> bool {{ true }}
}}
{mix_head}
    ensures res == mix_spec(r, x.0, x.1),
{mix_body}
{inv_head}
    ensures res == inv_mix_spec(r, y.0, y.1),
{inv_body}

impl {T} {{
    /// body of `impl BlockEncrypt for {T} {{ fn encrypt_block }}` (word-level core)
    fn encrypt_core(&self, v_in: [u64; {nw}]) -> (res: [u64; {nw}])
        ensures res@ == tf_encrypt(v_in@, self.skv()),
    {{
{enc}
    }}
    /// body of `impl BlockDecrypt for {T} {{ fn decrypt_block }}` (word-level core)
    fn decrypt_core(&self, v_in: [u64; {nw}]) -> (res: [u64; {nw}])
        ensures res@ == tf_decrypt(v_in@, self.skv()),
    {{
{dec}
    }}
}}

}} // verus!
fn main() {{}}
'''
    # name the return values of mix / inv_mix so the ensures clauses can refer to them
    text = text.replace("fn mix(r: u32, x: (u64, u64)) -> (u64, u64)", "fn mix(r: u32, x: (u64, u64)) -> (res: (u64, u64))")
    text = text.replace("fn inv_mix(r: u32, y: (u64, u64)) -> (u64, u64)", "fn inv_mix(r: u32, y: (u64, u64)) -> (res: (u64, u64))")
    return text


def generate(repo, scratch, tier):
    """Returns (files, notes): files = list of dict(label, path, extra_args); raises LostAnchor."""
    files = []
    cmds = []
    for no_unroll, feat in ((False, None), (True, "no_unroll")):
        expanded, cmd = expand_crate(repo, "threefish-cipher", feat, scratch)
        cmds.append(cmd)
        for sz in (256, 512, 1024):
            text = build(sz, expanded, no_unroll)
            name = "threefish%d_%s.rs" % (sz, "no_unroll" if no_unroll else "unrolled")
            path = os.path.join(scratch, name)
            open(path, "w").write(text)
            files.append(dict(label=name, path=path, extra=["--rlimit", "1000"]))
    return files, cmds
