"""Native search for a concrete failing input (DESIGN.md 3.8 / 11.8).

Used only after the verifier has reported a violated obligation for which it gives no replayable
counterexample (harnesses that abstract callees by uninterpreted functions, Verus).  The real crates of
the working tree are run against complete reference implementations assembled from /verif/spec/*.rs on
boundary and pseudo-random inputs, partitions, reuse patterns and seek/apply histories.  A mismatch is a
real failing input against the real code and is attached to the replay file; finding none changes nothing
(the VIOLATION line keeps its no-failing-input-found suffix)."""
import os, re, shutil
from common import *

# property -> (families, regex a MISMATCH line must match to be relevant for that property)
PROP_FAMILIES = {
    "C01": (["chacha"], r"wrong keystream byte"),
    "C02": (["chacha"], r"."),
    "C11": (["chacha"], r"."),
    "C14": (["chacha"], r"wrong keystream byte"),
    "C04": (["blake"], r"."),
    "C05": (["skein"], r"."),
    "C06": (["jh"], r"."),
    "C07": (["groestl"], r"."),
    "C08": (["blake", "groestl", "jh", "skein"], r"depends on the partition|a clone taken|reused hasher"),
    "C17": (["blake", "groestl", "jh", "skein"], r"."),
    "C16": (["align"], r"."),
    "C09": (["threefish"], r"encrypt_block differs"),
    "C10": (["threefish"], r"decrypt_block|!="),
}


def search(prop, scratch, seeds=(1, 2, 3), iters=400):
    fams = PROP_FAMILIES.get(prop)
    if not fams:
        return None
    d = os.path.join(scratch, "refcheck")
    shutil.copytree(os.path.join(VERIF, "native", "refcheck"), d)
    shutil.copytree(os.path.join(VERIF, "spec"), os.path.join(d, "spec"))
    p = os.path.join(d, "Cargo.toml")
    txt = open(p).read().replace("@REPO@", REPO)
    open(p, "w").write(txt)
    lock = os.path.join(REPO, "Cargo.lock")
    if os.path.exists(lock):
        shutil.copy(lock, os.path.join(d, "Cargo.lock"))
    env = dict(ENV)
    cmd = ["cargo", "build", "--offline"]
    rc, out, secs, to = run(cmd, cwd=d, env=env, timeout=1200)
    if rc != 0:
        return {"built": False, "cmd": " ".join(cmd), "log": out[-2000:], "mismatches": []}
    exe = os.path.join(d, "target", "debug", "refcheck")
    mism, cmds, cases = [], [], 0
    for fam in fams[0]:
        for s in seeds:
            c = [exe, fam, str(s), str(iters)]
            rc, out, secs, to = run(c, cwd=d, env=env, timeout=600)
            cmds.append("refcheck %s %d %d" % (fam, s, iters))
            m = re.search(r"cases=(\d+)", out)
            cases += int(m.group(1)) if m else 0
            for line in out.splitlines():
                if line.startswith("MISMATCH") and re.search(fams[1], line):
                    mism.append(line[:4000])
            if mism:
                break
    return {"built": True, "cmd": " ;; ".join(cmds), "cases": cases, "mismatches": mism[:6]}
